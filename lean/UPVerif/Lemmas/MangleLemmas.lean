import UPVerif.Core.Mangle
import UPVerif.Core.MangleSpec
/-! Helper lemmas for `Props/C38.lean`: dictionaries, the two loops, character classes, invariants. -/
namespace UPVerif.Mangle

/-! ### dictionaries -/
section dict
variable {α β : Type} [BEq α] [LawfulBEq α]

theorem lookup_dictSet (k k' : α) (v : β) (d : List (α × β)) :
    (dictSet k v d).lookup k' = if k' == k then some v else d.lookup k' := by
  induction d with
  | nil => simp [dictSet, List.lookup_cons]; split <;> simp_all
  | cons p r ih =>
    obtain ⟨k0, v0⟩ := p
    simp only [dictSet]
    by_cases h0 : (k0 == k) = true
    · have e : k0 = k := by simpa using h0
      subst e
      simp only [beq_self_eq_true, if_true, List.lookup_cons]
      by_cases h1 : (k' == k0) = true <;> simp [h1]
    · have h0' : (k0 == k) = false := by simpa using h0
      simp only [h0', Bool.false_eq_true, if_false, List.lookup_cons, ih]
      by_cases h1 : (k' == k0) = true
      · have e : k' = k0 := by simpa using h1
        subst e
        simp [h0']
      · have h1' : (k' == k0) = false := by simpa using h1
        simp [h1']

theorem mem_dictKeys_iff (d : List (α × β)) (k : α) : k ∈ dictKeys d ↔ (d.lookup k).isSome = true := by
  rw [List.lookup_isSome_iff]
  simp only [dictKeys, List.mem_map]
  constructor
  · rintro ⟨p, hp, rfl⟩; exact ⟨p, hp, by simp⟩
  · rintro ⟨p, hp, h⟩; exact ⟨p, hp, (by simpa using h : k = p.1).symm⟩

theorem not_mem_dictKeys_iff (d : List (α × β)) (k : α) : k ∉ dictKeys d ↔ d.lookup k = none := by
  rw [mem_dictKeys_iff]; cases d.lookup k <;> simp

omit [LawfulBEq α] in
theorem mem_dictValues_of_lookup {d : List (α × β)} {k : α} {v : β} (h : d.lookup k = some v) :
    v ∈ dictValues d := by
  induction d with
  | nil => simp at h
  | cons p r ih =>
    obtain ⟨k0, v0⟩ := p
    simp only [List.lookup_cons] at h
    simp only [dictValues, List.map_cons, List.mem_cons]
    split at h
    · left; injection h with h; exact h.symm
    · right; exact ih h

/-- with pairwise different keys every stored value is found by looking its key up -/
theorem lookup_of_mem_nodup {d : List (α × β)} (hd : (dictKeys d).Nodup) {k : α} {v : β}
    (h : (k, v) ∈ d) : d.lookup k = some v := by
  induction d with
  | nil => simp at h
  | cons p r ih =>
    obtain ⟨k0, v0⟩ := p
    simp only [dictKeys, List.map_cons, List.nodup_cons] at hd
    simp only [List.mem_cons] at h
    rcases h with h | h
    · injection h with h1 h2; subst h1; subst h2; simp
    · have hk : k ∈ dictKeys r := by simp only [dictKeys, List.mem_map]; exact ⟨(k, v), h, rfl⟩
      have hne : (k == k0) = false := by
        apply Bool.eq_false_iff.2; intro e
        have e' : k = k0 := by simpa using e
        subst e'; exact hd.1 hk
      simp only [List.lookup_cons, hne]
      exact ih hd.2 h

theorem dictKeys_dictSet (k : α) (v : β) (d : List (α × β)) :
    dictKeys (dictSet k v d) = if k ∈ dictKeys d then dictKeys d else dictKeys d ++ [k] := by
  induction d with
  | nil => simp [dictSet, dictKeys]
  | cons p r ih =>
    obtain ⟨k0, v0⟩ := p
    simp only [dictSet]
    by_cases h0 : (k0 == k) = true
    · have e : k0 = k := by simpa using h0
      subst e
      simp [dictKeys]
    · have h0' : (k0 == k) = false := by simpa using h0
      have hne : ¬ k = k0 := by intro e; subst e; simp at h0'
      have e1 : dictKeys ((k0, v0) :: dictSet k v r) = k0 :: dictKeys (dictSet k v r) := rfl
      have e2 : dictKeys ((k0, v0) :: r) = k0 :: dictKeys r := rfl
      simp only [h0', Bool.false_eq_true, if_false, e1, e2, ih, List.mem_cons, hne, false_or]
      by_cases hk : k ∈ dictKeys r <;> simp [hk]

theorem nodup_dictKeys_dictSet (k : α) (v : β) {d : List (α × β)} (hd : (dictKeys d).Nodup) :
    (dictKeys (dictSet k v d)).Nodup := by
  rw [dictKeys_dictSet]
  split
  · exact hd
  · rename_i h
    rw [List.nodup_append]
    refine ⟨hd, by simp, ?_⟩
    intro a ha b hb
    simp only [List.mem_singleton] at hb
    subst hb; intro e; subst e; exact h ha

end dict

/-! ### the keyword loop -/

theorem length_le_maxLen_aux (kw : List Name) (m : Nat) :
    m ≤ kw.foldl (fun m k => max m k.length) m ∧
    ∀ k ∈ kw, k.length ≤ kw.foldl (fun m k => max m k.length) m := by
  induction kw generalizing m with
  | nil => simp
  | cons a r ih =>
    simp only [List.foldl_cons, List.mem_cons]
    have h := ih (max m a.length)
    refine ⟨by omega, ?_⟩
    rintro k (rfl | hk)
    · omega
    · exact h.2 k hk

theorem length_le_maxLen {kw : List Name} {k : Name} (h : k ∈ kw) : k.length ≤ maxLen kw :=
  (length_le_maxLen_aux kw 0).2 k h

theorem escapeKw_not_mem (kw : List Name) (f : Nat) (n : Name) (h : maxLen kw < f + n.length) :
    escapeKw kw f n ∉ kw := by
  induction f generalizing n with
  | zero =>
    simp only [escapeKw]; intro hm
    have := length_le_maxLen hm; omega
  | succ f ih =>
    simp only [escapeKw]
    split
    · apply ih; simp only [List.length_append, List.length_singleton]; omega
    · rename_i hc; simpa using hc

theorem escapeKw_shape (kw : List Name) (f : Nat) (n : Name) :
    ∃ k, escapeKw kw f n = n ++ List.replicate k '_' := by
  induction f generalizing n with
  | zero => exact ⟨0, by simp [escapeKw]⟩
  | succ f ih =>
    simp only [escapeKw]
    split
    · obtain ⟨k, hk⟩ := ih (n ++ ['_'])
      refine ⟨k + 1, ?_⟩
      rw [hk, List.append_assoc, List.replicate_succ]
      rfl
    · exact ⟨0, by simp⟩

/-! ### the fresh-name loop -/

/-- the candidates the loop tries: `tmp`, `tmp_0`, `tmp_1`, … -/
def cand (tmp : Name) : Nat → Name
  | 0 => tmp
  | i + 1 => tmp ++ '_' :: Nat.toDigits 10 i

theorem toDigits_inj {a b : Nat} (h : Nat.toDigits 10 a = Nat.toDigits 10 b) : a = b := by
  have ha := @Nat.ofDigitChars_ten_toDigits a
  have hb := @Nat.ofDigitChars_ten_toDigits b
  rw [h] at ha; omega

theorem cand_inj (tmp : Name) {i j : Nat} (h : cand tmp i = cand tmp j) : i = j := by
  cases i <;> cases j
  · rfl
  · exfalso
    have := congrArg List.length h
    simp [cand] at this
  · exfalso
    have := congrArg List.length h
    simp [cand] at this
  · simp only [cand, List.append_cancel_left_eq, List.cons.injEq, true_and] at h
    rw [toDigits_inj h]

theorem fresh_aux (taken : List Name) (tmp : Name) (f c : Nat)
    (hprev : ∀ i, i < c → cand tmp i ∈ taken) (hfuel : taken.length < c + f) :
    fresh taken tmp f c (cand tmp c) ∉ taken := by
  induction f generalizing c with
  | zero =>
    exfalso
    have hnd : ((List.range c).map (cand tmp)).Nodup :=
      List.Pairwise.map (cand tmp) (fun a b (hab : a ≠ b) h => hab (cand_inj tmp h)) List.nodup_range
    have hsub : (List.range c).map (cand tmp) ⊆ taken := by
      intro x hx
      simp only [List.mem_map, List.mem_range] at hx
      obtain ⟨i, hi, rfl⟩ := hx
      exact hprev i hi
    have := List.Nodup.length_le_of_subset hnd hsub
    simp at this; omega
  | succ f ih =>
    simp only [fresh]
    split
    · rename_i hc
      have hc' : cand tmp c ∈ taken := by simpa using hc
      apply ih (c + 1)
      · intro i hi
        by_cases e : i = c
        · subst e; exact hc'
        · exact hprev i (by omega)
      · omega
    · rename_i hc; simpa using hc

/-- the fresh-name loop leaves through its condition: the chosen name is not taken -/
theorem fresh_not_taken (taken : List Name) (tmp : Name) :
    fresh taken tmp (freshFuel taken) 0 tmp ∉ taken :=
  fresh_aux taken tmp (freshFuel taken) 0 (by intro i hi; omega) (by simp [freshFuel])

theorem fresh_shape (taken : List Name) (tmp : Name) (f c : Nat) (cur : Name) :
    fresh taken tmp f c cur = cur ∨ ∃ k, fresh taken tmp f c cur = tmp ++ '_' :: Nat.toDigits 10 k := by
  induction f generalizing c cur with
  | zero => left; rfl
  | succ f ih =>
    simp only [fresh]
    split
    · rcases ih (c + 1) (tmp ++ '_' :: Nat.toDigits 10 c) with h | ⟨k, h⟩
      · right; exact ⟨c, h⟩
      · right; exact ⟨k, h⟩
    · left; rfl

/-! ### characters -/

theorem toLower_not_upper (c : Char) : c.toLower.isUpper = false := by
  unfold Char.toLower
  split
  · rename_i h
    simp only [Char.isUpper, ge_iff_le, Bool.decide_and, Bool.and_eq_false_imp, decide_eq_true_eq, decide_eq_false_iff_not]
    simp only [UInt32.le_iff_toNat_le] at *
    simp at *
    omega
  · rename_i h
    simp only [Char.isUpper]
    simpa using h

theorem toLower_of_not_upper (c : Char) (h : c.isUpper = false) : c.toLower = c := by
  unfold Char.toLower
  split
  · rename_i h'
    simp only [Char.isUpper] at h
    simp at h
    exact absurd h'.2 (by simpa using h h'.1)
  · rfl

theorem digit_not_upper (c : Char) (h : c.isDigit = true) : c.isUpper = false := by
  simp only [Char.isDigit, Char.isUpper, ge_iff_le, Bool.and_eq_true, decide_eq_true_eq, UInt32.le_iff_toNat_le] at *
  simp at *
  omega

theorem lower_not_upper (c : Char) (h : c.isLower = true) : c.isUpper = false := by
  simp only [Char.isLower, Char.isUpper, ge_iff_le, Bool.and_eq_true, decide_eq_true_eq, UInt32.le_iff_toNat_le] at *
  simp at *
  omega

theorem lower_alpha (c : Char) (h : c.isLower = true) : c.isAlpha = true := by
  simp [Char.isAlpha, h]

theorem digit_pddlChar (c : Char) (h : c.isDigit = true) : pddlChar c = true := by
  simp [pddlChar, Char.isAlphanum, h]

theorem digit_anmlChar (c : Char) (h : c.isDigit = true) : anmlChar c = true := by
  simp [anmlChar, Char.isAlphanum, h]

theorem toDigits_isDigit (k : Nat) : ∀ c ∈ Nat.toDigits 10 k, c.isDigit = true :=
  fun _ hc => Nat.isDigit_of_mem_toDigits (by omega) (by omega) hc

theorem map_toLower_of_lowerCase (n : Name) (h : lowerCase n = true) : n.map Char.toLower = n := by
  induction n with
  | nil => rfl
  | cons c cs ih =>
    simp only [lowerCase, List.all_cons, Bool.and_eq_true, Bool.not_eq_true'] at h
    simp only [List.map_cons]
    rw [toLower_of_not_upper c h.1, ih (by simpa [lowerCase] using h.2)]

/-! ### counter suffixes are recognised -/

theorem endsCounter_suffix (t : Name) (k : Nat) : endsCounter (t ++ '_' :: Nat.toDigits 10 k) = true := by
  have hd : ∀ a ∈ (Nat.toDigits 10 k).reverse, Char.isDigit a = true := by
    intro a ha; exact toDigits_isDigit k a (by simpa using ha)
  have hne : (Nat.toDigits 10 k).reverse ≠ [] := by
    simp [Nat.toDigits_ne_nil]
  have hr : (t ++ '_' :: Nat.toDigits 10 k).reverse = (Nat.toDigits 10 k).reverse ++ ('_' :: t.reverse) := by
    simp
  have hu : ¬ (Char.isDigit '_' = true) := by decide
  simp only [endsCounter, hr, List.takeWhile_append_of_pos hd, List.dropWhile_append_of_pos hd,
    List.takeWhile_cons_of_neg hu, List.dropWhile_cons_of_neg hu, List.append_nil, List.head?_cons]
  cases h : (Nat.toDigits 10 k).reverse with
  | nil => exact absurd h hne
  | cons a r => simp

theorem kwOK_counter {kw : List Name} (h : kwOK kw = true) (t : Name) (k : Nat) :
    t ++ '_' :: Nat.toDigits 10 k ∉ kw := by
  intro hm
  simp only [kwOK, Bool.and_eq_true, List.all_eq_true] at h
  have := (h.1 _ hm).1
  rw [endsCounter_suffix] at this
  simp at this

theorem kwOK_var {kw : List Name} (h : kwOK kw = true) (n : Name) : '?' :: n ∉ kw := by
  intro hm
  simp only [kwOK, Bool.and_eq_true, List.all_eq_true] at h
  have := (h.1 _ hm).2
  simp at this

theorem kwOK_object {kw : List Name} (h : kwOK kw = true) : objectName ++ ['_'] ∉ kw := by
  simp only [kwOK, Bool.and_eq_true, Bool.not_eq_true'] at h
  intro hm
  have := h.2
  rw [List.contains_iff_mem.2 hm] at this
  cases this

theorem kwOK_of_subset {kw kw' : List Name} (hs : ∀ k ∈ kw', k ∈ kw) (h : kwOK kw = true) : kwOK kw' = true := by
  simp only [kwOK, Bool.and_eq_true, List.all_eq_true, Bool.not_eq_true'] at h ⊢
  refine ⟨fun k hk => h.1 k (hs k hk), ?_⟩
  cases hc : kw'.contains (objectName ++ ['_']) with
  | false => rfl
  | true =>
    have := hs _ (List.contains_iff_mem.1 hc)
    rw [List.contains_iff_mem.2 this] at h
    exact absurd h.2 (by simp)

theorem pddlKeywords_subset (T : Tables) (a b c d : Bool) :
    ∀ k ∈ pddlKeywords T a b c d, k ∈ allPddlKeywords T := by
  intro k hk
  simp only [pddlKeywords, allPddlKeywords, List.mem_append] at hk ⊢
  rcases hk with (((h | h) | h) | h) | h
  · simp [h]
  · cases a <;> simp_all
  · cases b <;> simp_all
  · cases c <;> simp_all
  · cases d <;> simp_all

/-! ### shape of the names: PDDL -/

/-- characters allowed after the first one, in lower case -/
def okTail (s : Name) : Bool := s.all (fun c => pddlChar c && !c.isUpper)

/-- a valid lower-case PDDL name (`v = false`) or variable (`v = true`) -/
def goodName (v : Bool) (n : Name) : Bool :=
  (if v then isPddlVariable n else isPddlName n) && lowerCase n

theorem goodName_false_cons (c : Char) (cs : Name) :
    goodName false (c :: cs) = (c.isAlpha && !c.isUpper && okTail cs) := by
  simp only [goodName, isPddlName, lowerCase, okTail, List.all_cons, Bool.false_eq_true, if_false]
  have : (cs.all fun c => pddlChar c && !c.isUpper) = (cs.all pddlChar && cs.all fun c => !c.isUpper) := by
    induction cs with
    | nil => rfl
    | cons a r ih => simp only [List.all_cons, ih]; cases pddlChar a <;> cases a.isUpper <;> simp
  rw [this]
  cases c.isAlpha <;> cases c.isUpper <;> cases cs.all pddlChar <;> simp

theorem goodName_true_cons (n : Name) : goodName true ('?' :: n) = goodName false n := by
  simp only [goodName, isPddlVariable, lowerCase, List.all_cons, if_true, Bool.false_eq_true, if_false]
  have : (!Char.isUpper '?') = true := by decide
  rw [this, Bool.true_and]

theorem okTail_append (a b : Name) : okTail (a ++ b) = (okTail a && okTail b) := by
  simp [okTail, List.all_append]

theorem goodName_append (v : Bool) (n s : Name) (h : goodName v n = true) (hs : okTail s = true) :
    goodName v (n ++ s) = true := by
  cases v with
  | false =>
    cases n with
    | nil => simp [goodName, isPddlName] at h
    | cons c cs =>
      rw [List.cons_append, goodName_false_cons, okTail_append]
      rw [goodName_false_cons] at h
      simp only [Bool.and_eq_true] at h ⊢
      exact ⟨h.1, h.2, hs⟩
  | true =>
    cases n with
    | nil => simp [goodName, isPddlVariable] at h
    | cons q m =>
      by_cases hq : q = '?'
      · subst hq
        rw [List.cons_append, goodName_true_cons]
        rw [goodName_true_cons] at h
        cases m with
        | nil => simp [goodName, isPddlName] at h
        | cons c cs =>
          rw [List.cons_append, goodName_false_cons, okTail_append]
          rw [goodName_false_cons] at h
          simp only [Bool.and_eq_true] at h ⊢
          exact ⟨h.1, h.2, hs⟩
      · exfalso
        simp only [goodName, if_true, Bool.and_eq_true] at h
        have h1 := h.1
        unfold isPddlVariable at h1
        split at h1
        · rename_i e; injection e with e1 _; exact hq e1
        · cases h1

theorem okTail_counter (k : Nat) : okTail ('_' :: Nat.toDigits 10 k) = true := by
  simp only [okTail, List.all_cons, Bool.and_eq_true, List.all_eq_true]
  refine ⟨by decide, ?_⟩
  intro c hc
  have := toDigits_isDigit k c hc
  simp [digit_pddlChar c this, digit_not_upper c this]

theorem okTail_replicate (k : Nat) : okTail (List.replicate k '_') = true := by
  simp only [okTail, List.all_eq_true]
  intro c hc
  rw [List.mem_replicate] at hc
  rw [hc.2]; decide

theorem okTail_subst (T : Tables) (hk : T.pddlKeep.all pddlChar = true) (n : Name)
    (hn : n.all (fun c => !c.isUpper) = true) : okTail (subst T.pddlKeep n) = true := by
  simp only [okTail, subst, List.all_map, List.all_eq_true] at *
  intro c hc
  simp only [Function.comp]
  split
  · rename_i hin
    have := hk c (List.contains_iff_mem.1 hin)
    simp [this, hn c hc]
  · decide

theorem pddlBody_good (T : Tables) (hT : pddlTablesOK T = true) (it : Item) :
    goodName false (subst T.pddlKeep
      (if startsIn T.pddlStart (it.name.map Char.toLower) then it.name.map Char.toLower
       else initialLetter T.pddlInitial T.pddlDefault it.cls :: '_' :: it.name.map Char.toLower)) = true := by
  simp only [pddlTablesOK, Bool.and_eq_true] at hT
  obtain ⟨⟨⟨hstart, hkeep⟩, hinit⟩, _⟩ := hT
  have hlow : (it.name.map Char.toLower).all (fun c => !c.isUpper) = true := by
    simp only [List.all_map, List.all_eq_true]
    intro c _; simp [Function.comp, toLower_not_upper]
  split
  · rename_i hs
    cases hn : it.name.map Char.toLower with
    | nil => rw [hn] at hs; simp [startsIn] at hs
    | cons c cs =>
      rw [hn] at hs hlow
      simp only [startsIn] at hs
      have hc := (List.all_eq_true.1 hstart) c (List.contains_iff_mem.1 hs)
      simp only [Bool.and_eq_true] at hc
      simp only [List.all_cons, Bool.and_eq_true, Bool.not_eq_true'] at hlow
      have e : subst T.pddlKeep (c :: cs) = c :: subst T.pddlKeep cs := by
        simp [subst, List.contains_iff_mem.1 hc.2]
      rw [e, goodName_false_cons]
      simp only [Bool.and_eq_true, Bool.not_eq_true']
      exact ⟨⟨hc.1, hlow.1⟩, okTail_subst T hkeep cs hlow.2⟩
  · -- the initial letter is put in front
    have hL : (initialLetter T.pddlInitial T.pddlDefault it.cls).isLower = true ∧
        T.pddlKeep.contains (initialLetter T.pddlInitial T.pddlDefault it.cls) = true := by
      have hall := List.all_eq_true.1 hinit
      unfold initialLetter
      cases hl : T.pddlInitial.lookup it.cls with
      | none => simpa using hall T.pddlDefault (by simp)
      | some c =>
        have hm : c ∈ T.pddlInitial.map (·.2) := mem_dictValues_of_lookup hl
        simpa using hall c (List.mem_cons_of_mem _ hm)
    have e : subst T.pddlKeep (initialLetter T.pddlInitial T.pddlDefault it.cls :: '_' :: it.name.map Char.toLower)
        = initialLetter T.pddlInitial T.pddlDefault it.cls :: subst T.pddlKeep ('_' :: it.name.map Char.toLower) := by
      simp [subst, List.contains_iff_mem.1 hL.2]
    rw [e, goodName_false_cons]
    simp only [Bool.and_eq_true, Bool.not_eq_true']
    refine ⟨⟨lower_alpha _ hL.1, lower_not_upper _ hL.1⟩, okTail_subst T hkeep _ ?_⟩
    simp only [List.all_cons, hlow, Bool.and_true]; decide

theorem pddlName_good (T : Tables) (hT : pddlTablesOK T = true) (kw : List Name) (it : Item) :
    goodName it.isVar (pddlName T kw it) = true := by
  have hb := pddlBody_good T hT it
  simp only [pddlName]
  obtain ⟨k, hk⟩ := escapeKw_shape kw (escapeFuel kw) (subst T.pddlKeep
      (if startsIn T.pddlStart (it.name.map Char.toLower) then it.name.map Char.toLower
       else initialLetter T.pddlInitial T.pddlDefault it.cls :: '_' :: it.name.map Char.toLower))
  rw [hk]
  have := goodName_append false _ _ hb (okTail_replicate k)
  cases hv : it.isVar with
  | false => simpa using this
  | true => simp only [if_true]; rw [goodName_true_cons]; exact this

theorem pddlTmp_good (T : Tables) (hT : pddlTablesOK T = true) (env : PddlEnv) (it : Item) :
    goodName it.isVar (pddlTmp T env it) = true := by
  simp only [pddlTmp]
  split
  · exact goodName_append _ _ _ (pddlName_good T hT env.kw it) (by decide)
  · exact pddlName_good T hT env.kw it

theorem pddlName_not_kw (T : Tables) (kw : List Name) (hkw : kwOK kw = true) (it : Item) :
    pddlName T kw it ∉ kw := by
  simp only [pddlName]
  split
  · exact kwOK_var hkw _
  · apply escapeKw_not_mem; simp [escapeFuel]; omega

theorem pddlTmp_not_kw (T : Tables) (env : PddlEnv) (hkw : kwOK env.kw = true) (it : Item) :
    pddlTmp T env it ∉ env.kw := by
  simp only [pddlTmp]
  split
  · rename_i h
    simp only [Bool.and_eq_true, beq_iff_eq] at h
    rw [h.2]; exact kwOK_object hkw
  · exact pddlName_not_kw T env.kw hkw it

/-! ### one call of `_get_mangled_name` -/

theorem getMangledName_hit (T : Tables) (env : PddlEnv) (st : PddlState) (it : Item) (n : Name)
    (h : st.otn.lookup it = some n) : getMangledName T env st it = (n, st) := by
  simp [getMangledName, h]

theorem getMangledName_miss (T : Tables) (env : PddlEnv) (st : PddlState) (it : Item)
    (h : st.otn.lookup it = none) :
    ∃ new, getMangledName T env st it
        = (new, { otn := dictSet it new st.otn, nto := dictSet new it st.nto })
      ∧ new ∉ dictKeys st.nto
      ∧ (new = pddlTmp T env it ∨ ∃ k, new = pddlTmp T env it ++ '_' :: Nat.toDigits 10 k) := by
  simp only [getMangledName, h]
  split
  · rename_i hc
    simp only [Bool.and_eq_true, Bool.not_eq_true'] at hc
    refine ⟨_, rfl, ?_, Or.inl rfl⟩
    intro hm
    rw [List.contains_iff_mem.2 hm] at hc
    exact absurd hc.2 (by simp)
  · refine ⟨_, rfl, ?_, ?_⟩
    · intro hm
      exact fresh_not_taken (env.names ++ dictKeys st.nto) (pddlTmp T env it) (List.mem_append_right _ hm)
    · exact fresh_shape _ _ _ _ _

/-- the three invariants of the two maps -/
structure PddlInv (st : PddlState) : Prop where
  inverse : ∀ it n, st.otn.lookup it = some n ↔ st.nto.lookup n = some it
  nodup : (dictKeys st.otn).Nodup

theorem pddlInv_empty : PddlInv {} := ⟨by intro it n; simp, by simp [dictKeys]⟩

theorem pddlInv_step (T : Tables) (env : PddlEnv) (st : PddlState) (it : Item) (hI : PddlInv st) :
    PddlInv (getMangledName T env st it).2 := by
  cases h : st.otn.lookup it with
  | some n => rw [getMangledName_hit T env st it n h]; exact hI
  | none =>
    obtain ⟨new, he, hnew, _⟩ := getMangledName_miss T env st it h
    rw [he]
    have hnew' : st.nto.lookup new = none := (not_mem_dictKeys_iff _ _).1 hnew
    refine ⟨?_, nodup_dictKeys_dictSet _ _ hI.nodup⟩
    intro it' n'
    simp only [lookup_dictSet]
    by_cases e1 : it' = it
    · subst e1
      by_cases e2 : n' = new
      · subst e2; simp
      · have e2' : ¬ new = n' := fun e => e2 e.symm
        simp only [beq_self_eq_true, if_true, Option.some.injEq, e2', false_iff]
        have : (n' == new) = false := by simpa using e2
        simp only [this, Bool.false_eq_true, if_false]
        intro hc
        have := (hI.inverse it' n').2 hc
        rw [h] at this; cases this
    · have e1' : (it' == it) = false := by simpa using e1
      simp only [e1', Bool.false_eq_true, if_false]
      by_cases e2 : n' = new
      · subst e2
        simp only [beq_self_eq_true, if_true, Option.some.injEq]
        constructor
        · intro hc
          have := (hI.inverse it' n').1 hc
          rw [hnew'] at this; cases this
        · intro hc; exact absurd hc.symm e1
      · have : (n' == new) = false := by simpa using e2
        simp only [this, Bool.false_eq_true, if_false]
        exact hI.inverse it' n'

theorem foldl_invariant {σ ι : Type} (f : σ → ι → σ) (P : σ → Prop)
    (hstep : ∀ s i, P s → P (f s i)) : ∀ (l : List ι) (s : σ), P s → P (l.foldl f s) := by
  intro l
  induction l with
  | nil => intro s hs; exact hs
  | cons a r ih => intro s hs; exact ih _ (hstep s a hs)

theorem pddlRun_inv (T : Tables) (env : PddlEnv) (calls : List Item) : PddlInv (pddlRun T env calls) :=
  foldl_invariant _ PddlInv (fun st it h => pddlInv_step T env st it h) calls {} pddlInv_empty

/-- names already given are never changed by a later call -/
theorem getMangledName_keeps (T : Tables) (env : PddlEnv) (st : PddlState) (it it' : Item) (n : Name)
    (h : st.otn.lookup it' = some n) : (getMangledName T env st it).2.otn.lookup it' = some n := by
  cases hl : st.otn.lookup it with
  | some m => rw [getMangledName_hit T env st it m hl]; exact h
  | none =>
    obtain ⟨new, he, _, _⟩ := getMangledName_miss T env st it hl
    rw [he]
    simp only [lookup_dictSet]
    have : (it' == it) = false := by
      apply Bool.eq_false_iff.2; intro e
      have e' : it' = it := by simpa using e
      rw [e', hl] at h; cases h
    simp [this, h]

/-- what a call returns is what the map holds afterwards -/
theorem getMangledName_returns (T : Tables) (env : PddlEnv) (st : PddlState) (it : Item) :
    (getMangledName T env st it).2.otn.lookup it = some (getMangledName T env st it).1 := by
  cases hl : st.otn.lookup it with
  | some m => rw [getMangledName_hit T env st it m hl]; exact hl
  | none =>
    obtain ⟨new, he, _, _⟩ := getMangledName_miss T env st it hl
    rw [he]; simp [lookup_dictSet]

/-- property of all recorded names, preserved by every call -/
theorem pddl_names_invariant (T : Tables) (env : PddlEnv) (Q : Item → Name → Prop)
    (hQ : ∀ it, Q it (pddlTmp T env it) ∧ ∀ k, Q it (pddlTmp T env it ++ '_' :: Nat.toDigits 10 k))
    (calls : List Item) :
    ∀ it n, (pddlRun T env calls).otn.lookup it = some n → Q it n := by
  refine foldl_invariant _ (fun (st : PddlState) => ∀ it n, st.otn.lookup it = some n → Q it n) ?_ calls {}
    (by intro it n h; simp at h)
  intro st it hst it' n'
  cases hl : st.otn.lookup it with
  | some m => rw [getMangledName_hit T env st it m hl]; exact hst it' n'
  | none =>
    obtain ⟨new, he, _, hshape⟩ := getMangledName_miss T env st it hl
    rw [he]
    simp only [lookup_dictSet]
    split
    · rename_i e
      have e' : it' = it := by simpa using e
      subst e'
      intro hn; injection hn with hn; subst hn
      rcases hshape with h | ⟨k, h⟩
      · rw [h]; exact (hQ it').1
      · rw [h]; exact (hQ it').2 k
    · exact hst it' n'

/-! ### shape of the names: ANML -/

theorem isAnmlIdent_append (n s : Name) (h : isAnmlIdent n = true) (hs : s.all anmlChar = true) :
    isAnmlIdent (n ++ s) = true := by
  cases n with
  | nil => simp [isAnmlIdent] at h
  | cons c cs =>
    simp only [isAnmlIdent, List.cons_append, List.all_append, Bool.and_eq_true] at h ⊢
    exact ⟨h.1, h.2, hs⟩

theorem anmlCounter_ok (k : Nat) : ('_' :: Nat.toDigits 10 k).all anmlChar = true := by
  simp only [List.all_cons, Bool.and_eq_true, List.all_eq_true]
  exact ⟨by decide, fun c hc => digit_anmlChar c (toDigits_isDigit k c hc)⟩

theorem anmlSubst_ok (T : Tables) (hk : T.anmlKeep.all anmlChar = true) (n : Name) :
    (subst T.anmlKeep n).all anmlChar = true := by
  simp only [subst, List.all_map, List.all_eq_true] at *
  intro c _
  simp only [Function.comp]
  split
  · rename_i hin; exact hk c (List.contains_iff_mem.1 hin)
  · decide

theorem anmlValidName_good (T : Tables) (hT : anmlTablesOK T = true) (it : Item) :
    isAnmlIdent (anmlValidName T it) = true := by
  simp only [anmlTablesOK, Bool.and_eq_true] at hT
  obtain ⟨⟨⟨⟨⟨hstart, hkeep⟩, hinit⟩, _⟩, _⟩, _⟩ := hT
  simp only [anmlValidName]
  obtain ⟨k, hk⟩ := escapeKw_shape T.anmlKw (escapeFuel T.anmlKw) (subst T.anmlKeep
      (if startsIn T.anmlStart it.name then it.name
       else initialLetter T.anmlInitial T.anmlDefault it.cls :: '_' :: it.name))
  rw [hk]
  apply isAnmlIdent_append
  · split
    · rename_i hs
      cases hn : it.name with
      | nil => rw [hn] at hs; simp [startsIn] at hs
      | cons c cs =>
        rw [hn] at hs
        simp only [startsIn] at hs
        have hc := (List.all_eq_true.1 hstart) c (List.contains_iff_mem.1 hs)
        simp only [Bool.and_eq_true] at hc
        have e : subst T.anmlKeep (c :: cs) = c :: subst T.anmlKeep cs := by
          simp [subst, List.contains_iff_mem.1 hc.2]
        rw [e]
        simp only [isAnmlIdent, Bool.and_eq_true]
        exact ⟨hc.1, anmlSubst_ok T hkeep cs⟩
    · have hL : (initialLetter T.anmlInitial T.anmlDefault it.cls).isAlpha = true ∧
          T.anmlKeep.contains (initialLetter T.anmlInitial T.anmlDefault it.cls) = true := by
        have hall := List.all_eq_true.1 hinit
        unfold initialLetter
        cases hl : T.anmlInitial.lookup it.cls with
        | none => simpa using hall T.anmlDefault (by simp)
        | some c =>
          have hm : c ∈ T.anmlInitial.map (·.2) := mem_dictValues_of_lookup hl
          simpa using hall c (List.mem_cons_of_mem _ hm)
      have e : subst T.anmlKeep (initialLetter T.anmlInitial T.anmlDefault it.cls :: '_' :: it.name)
          = initialLetter T.anmlInitial T.anmlDefault it.cls :: subst T.anmlKeep ('_' :: it.name) := by
        simp [subst, List.contains_iff_mem.1 hL.2]
      rw [e]
      simp only [isAnmlIdent, Bool.and_eq_true]
      exact ⟨hL.1, anmlSubst_ok T hkeep _⟩
  · simp only [List.all_eq_true]
    intro c hc
    rw [List.mem_replicate] at hc
    rw [hc.2]; decide

theorem anmlValidName_not_kw (T : Tables) (it : Item) : anmlValidName T it ∉ T.anmlKw := by
  simp only [anmlValidName]
  apply escapeKw_not_mem; simp [escapeFuel]; omega

theorem anmlIsValid_good (T : Tables) (hT : anmlTablesOK T = true) (n : Name) (h : anmlIsValid T n = true) :
    isAnmlIdent n = true ∧ n ∉ T.anmlKw := by
  simp only [anmlTablesOK, Bool.and_eq_true] at hT
  obtain ⟨⟨⟨_, hfirst⟩, hrest⟩, _⟩ := hT
  simp only [anmlIsValid, Bool.and_eq_true, Bool.not_eq_true'] at h
  constructor
  · cases n with
    | nil => simp at h
    | cons c cs =>
      simp only [Bool.and_eq_true, List.all_eq_true] at h
      simp only [isAnmlIdent, Bool.and_eq_true, List.all_eq_true]
      refine ⟨(List.all_eq_true.1 hfirst) c (List.contains_iff_mem.1 h.1.1), ?_⟩
      intro x hx
      exact (List.all_eq_true.1 hrest) x (List.contains_iff_mem.1 (h.1.2 x hx))
  · intro hm
    rw [List.contains_iff_mem.2 hm] at h
    exact absurd h.2 (by simp)

theorem anmlKw_counter (T : Tables) (hT : anmlTablesOK T = true) (t : Name) (k : Nat) :
    t ++ '_' :: Nat.toDigits 10 k ∉ T.anmlKw := by
  simp only [anmlTablesOK, Bool.and_eq_true] at hT
  intro hm
  have := (List.all_eq_true.1 hT.2) _ hm
  rw [endsCounter_suffix] at this
  simp at this

/-! ### one call of `_get_anml_name`, one pre-registration step -/

theorem getAnmlName_hit (T : Tables) (m : AnmlMap) (it : Item) (n : Name) (h : m.lookup it = some n) :
    getAnmlName T m it = (n, m) := by
  simp [getAnmlName, h]

theorem getAnmlName_miss (T : Tables) (m : AnmlMap) (it : Item) (h : m.lookup it = none) :
    ∃ new, getAnmlName T m it = (new, dictSet it new m) ∧ new ∉ dictValues m
      ∧ (new = anmlValidName T it ∨ ∃ k, new = anmlValidName T it ++ '_' :: Nat.toDigits 10 k) := by
  simp only [getAnmlName, h]
  exact ⟨_, rfl, fresh_not_taken _ _, fresh_shape _ _ _ _ _⟩

/-- different keys have different names -/
def AnmlInj (m : AnmlMap) : Prop := ∀ k k' n, m.lookup k = some n → m.lookup k' = some n → k = k'

/-- every name of a model element is an ANML identifier and not a keyword -/
def AnmlGood (T : Tables) (m : AnmlMap) : Prop :=
  ∀ k n, m.lookup k = some n → k.isBuiltin = false → isAnmlIdent n = true ∧ n ∉ T.anmlKw

theorem anmlInj_set (m : AnmlMap) (k : Item) (v : Name) (hI : AnmlInj m) (hv : v ∉ dictValues m) :
    AnmlInj (dictSet k v m) := by
  intro k1 k2 n h1 h2
  simp only [lookup_dictSet] at h1 h2
  by_cases e1 : k1 = k <;> by_cases e2 : k2 = k
  · rw [e1, e2]
  · exfalso
    have e2' : (k2 == k) = false := by simpa using e2
    simp only [e1, beq_self_eq_true, if_true, Option.some.injEq] at h1
    simp only [e2', Bool.false_eq_true, if_false] at h2
    rw [← h1] at h2
    exact hv (mem_dictValues_of_lookup h2)
  · exfalso
    have e1' : (k1 == k) = false := by simpa using e1
    simp only [e2, beq_self_eq_true, if_true, Option.some.injEq] at h2
    simp only [e1', Bool.false_eq_true, if_false] at h1
    rw [← h2] at h1
    exact hv (mem_dictValues_of_lookup h1)
  · have e1' : (k1 == k) = false := by simpa using e1
    have e2' : (k2 == k) = false := by simpa using e2
    simp only [e1', e2', Bool.false_eq_true, if_false] at h1 h2
    exact hI k1 k2 n h1 h2

theorem anmlGood_set (T : Tables) (m : AnmlMap) (k : Item) (v : Name) (hG : AnmlGood T m)
    (hv : k.isBuiltin = false → isAnmlIdent v = true ∧ v ∉ T.anmlKw) : AnmlGood T (dictSet k v m) := by
  intro k1 n h1 hb
  simp only [lookup_dictSet] at h1
  split at h1
  · rename_i e
    have e' : k1 = k := by simpa using e
    injection h1 with h1
    subst h1; subst e'
    exact hv hb
  · exact hG k1 n h1 hb

theorem anmlBuiltins_eq :
    anmlBuiltins = dictSet realKey ['f', 'l', 'o', 'a', 't']
      (dictSet intKey ['i', 'n', 't', 'e', 'g', 'e', 'r'] (dictSet boolKey ['b', 'o', 'o', 'l', 'e', 'a', 'n'] [])) := by
  decide

theorem anmlInj_builtins : AnmlInj anmlBuiltins := by
  rw [anmlBuiltins_eq]
  apply anmlInj_set
  · apply anmlInj_set
    · apply anmlInj_set
      · intro k k' n h; simp at h
      · simp [dictValues]
    · decide
  · decide

theorem anmlGood_builtins (T : Tables) : AnmlGood T anmlBuiltins := by
  intro k n h hb
  exfalso
  have hs : (anmlBuiltins.lookup k).isSome = true := by rw [h]; rfl
  rw [List.lookup_isSome_iff] at hs
  obtain ⟨p, hp, hk⟩ := hs
  have hk' : k = p.1 := by simpa using hk
  simp only [anmlBuiltins, List.mem_cons, List.not_mem_nil, or_false] at hp
  rcases hp with rfl | rfl | rfl <;> (rw [hk'] at hb; revert hb; decide)

theorem anmlKeep_inv (T : Tables) (hT : anmlTablesOK T = true) (m : AnmlMap) (it : Item)
    (h : AnmlInj m ∧ AnmlGood T m) : AnmlInj (anmlKeep T m it) ∧ AnmlGood T (anmlKeep T m it) := by
  simp only [anmlKeep]
  split
  · rename_i hc
    simp only [Bool.and_eq_true, Bool.not_eq_true'] at hc
    refine ⟨anmlInj_set m it it.name h.1 ?_, anmlGood_set T m it it.name h.2 (fun _ => anmlIsValid_good T hT _ hc.1)⟩
    intro hm
    rw [List.contains_iff_mem.2 hm] at hc
    exact absurd hc.2 (by simp)
  · exact h

theorem anmlKeep_inj (T : Tables) (m : AnmlMap) (it : Item) (h : AnmlInj m) : AnmlInj (anmlKeep T m it) := by
  simp only [anmlKeep]
  split
  · rename_i hc
    simp only [Bool.and_eq_true, Bool.not_eq_true'] at hc
    refine anmlInj_set m it it.name h ?_
    intro hm
    rw [List.contains_iff_mem.2 hm] at hc
    exact absurd hc.2 (by simp)
  · exact h

theorem getAnmlName_inj (T : Tables) (m : AnmlMap) (it : Item) (h : AnmlInj m) :
    AnmlInj (getAnmlName T m it).2 := by
  cases hl : m.lookup it with
  | some n => rw [getAnmlName_hit T m it n hl]; exact h
  | none =>
    obtain ⟨new, he, hnew, _⟩ := getAnmlName_miss T m it hl
    rw [he]; exact anmlInj_set m it new h hnew

theorem getAnmlName_good (T : Tables) (hT : anmlTablesOK T = true) (m : AnmlMap) (it : Item)
    (h : AnmlGood T m) : AnmlGood T (getAnmlName T m it).2 := by
  cases hl : m.lookup it with
  | some n => rw [getAnmlName_hit T m it n hl]; exact h
  | none =>
    obtain ⟨new, he, _, hshape⟩ := getAnmlName_miss T m it hl
    rw [he]
    apply anmlGood_set T m it new h
    intro _
    rcases hshape with e | ⟨k, e⟩
    · rw [e]; exact ⟨anmlValidName_good T hT it, anmlValidName_not_kw T it⟩
    · rw [e]
      exact ⟨isAnmlIdent_append _ _ (anmlValidName_good T hT it) (anmlCounter_ok k), anmlKw_counter T hT _ k⟩

theorem anmlRun_inj (T : Tables) (declared calls : List Item) : AnmlInj (anmlRun T declared calls) := by
  refine foldl_invariant _ AnmlInj (fun m it h => getAnmlName_inj T m it h) calls _ ?_
  exact foldl_invariant _ AnmlInj (fun m it h => anmlKeep_inj T m it h) declared _ anmlInj_builtins

theorem anmlRun_good (T : Tables) (hT : anmlTablesOK T = true) (declared calls : List Item) :
    AnmlGood T (anmlRun T declared calls) := by
  refine foldl_invariant _ (AnmlGood T) (fun m it h => getAnmlName_good T hT m it h) calls _ ?_
  have := foldl_invariant (anmlKeep T) (fun m => AnmlInj m ∧ AnmlGood T m)
    (fun m it h => anmlKeep_inv T hT m it h) declared _ ⟨anmlInj_builtins, anmlGood_builtins T⟩
  exact this.2

theorem getAnmlName_keeps (T : Tables) (m : AnmlMap) (it it' : Item) (n : Name)
    (h : m.lookup it' = some n) : (getAnmlName T m it).2.lookup it' = some n := by
  cases hl : m.lookup it with
  | some k => rw [getAnmlName_hit T m it k hl]; exact h
  | none =>
    obtain ⟨new, he, _, _⟩ := getAnmlName_miss T m it hl
    rw [he]
    simp only [lookup_dictSet]
    have : (it' == it) = false := by
      apply Bool.eq_false_iff.2; intro e
      have e' : it' = it := by simpa using e
      rw [e', hl] at h; cases h
    simp [this, h]

theorem getAnmlName_returns (T : Tables) (m : AnmlMap) (it : Item) :
    (getAnmlName T m it).2.lookup it = some (getAnmlName T m it).1 := by
  cases hl : m.lookup it with
  | some k => rw [getAnmlName_hit T m it k hl]; exact hl
  | none =>
    obtain ⟨new, he, _, _⟩ := getAnmlName_miss T m it hl
    rw [he]; simp [lookup_dictSet]

end UPVerif.Mangle
