import UPVerif.Lemmas.CompileGroundSimSem
/-!
Grounder (C06 / C07): the example problems of `Props/C06Ground.lean` / `Props/C07Ground.lean` (non-vacuity of the
hypotheses, kernel-checked refutations of the unrestricted statements) and the lemmas about them: the example
simplifiers — which replace a static fluent by its initial value, as `Simplifier(env, problem)` does — are exact on closed
instances in every state that agrees with the initial state on the static fluents.
-/
namespace UPVerif.C06
open UPVerif UPVerif.Expr UPVerif.Sim UPVerif.Spec UPVerif.Simulation UPVerif.Compile UPVerif.Compile.Ground

namespace GroundEx
/-! types `T`; objects `o1 o2 : T`; fluents `road(T) : bool = false` (STATIC: no action writes it), `at(T) : bool = false`,
`q(T) : bool = false`, `x : int = 0`; initially `road(o1)`; goal `at(o1)`.
* `mv(p : T)`: pre `road(p) and x <= 3` (one nested AND), `not at(p)`;
  effects `at(p) := true`, `x += 1 if road(p)`, `x += 2 if not road(p)`, `forall w:T. q(w) := true`
* `nop()`: effect `x := 5` -/
def tT : Ty := .user "T"
def fRoad : FluentRef := ⟨"road", .bool, [tT]⟩
def fAt : FluentRef := ⟨"at", .bool, [tT]⟩
def fQ : FluentRef := ⟨"q", .bool, [tT]⟩
def fX : FluentRef := ⟨"x", .int none none, []⟩
def pP : Expr := .leaf (.param "p" tT)
def vW : Var := ⟨"w", tT⟩
def o1 : Expr := .leaf (.obj "o1" "T")
def o2 : Expr := .leaf (.obj "o2" "T")
def eX : Expr := .app (.fluent fX) []
def road (e : Expr) : Expr := .app (.fluent fRoad) [e]
def eff (f v c : Expr) (k : EffKind) (fa : List Var) : Effect :=
  { fluent := f, value := v, cond := c, kind := k, forall_ := fa }
def mv : Action where
  name := "mv"
  params := [("p", tT)]
  pre := [.app .and [road pP, Expr.mkLE eX (Expr.int 3)], Expr.mkNot (.app (.fluent fAt) [pP])]
  effs := [eff (.app (.fluent fAt) [pP]) Expr.tt Expr.tt .assign [],
           eff eX (Expr.int 1) (road pP) .increase [],
           eff eX (Expr.int 2) (Expr.mkNot (road pP)) .increase [],
           eff (.app (.fluent fQ) [.leaf (.var vW)]) Expr.tt Expr.tt .assign [vW]]
def nop : Action := { name := "nop", params := [], pre := [], effs := [eff eX (Expr.int 5) Expr.tt .assign []] }
def PG : Problem where
  name := "roads"
  types := ⟨[("T", none)]⟩
  objects := [("o1", "T"), ("o2", "T")]
  fluents := [⟨fRoad, some Expr.ff⟩, ⟨fAt, some Expr.ff⟩, ⟨fQ, some Expr.ff⟩, ⟨fX, some (Expr.int 0)⟩]
  init := [(road o1, Expr.tt)]
  actions := [mv, nop]
  goals := [.app (.fluent fAt) [o1]]
  traj := []
  metrics := []

/-- a simplifier that uses the initial values of the static fluent `road`, as `Simplifier(env, problem)` does -/
def simpRoad (e : Expr) : Expr :=
  if e = road o1 then Expr.tt
  else if e = road o2 then Expr.ff
  else if e = Expr.mkNot (road o1) then Expr.ff
  else if e = Expr.mkNot (road o2) then Expr.tt
  else e

def WG : World := { P := PG, simp := id, fn := fun _ _ => none }
def cPrune : GroundCompiled := (grounderCompile simpRoad true PG).getD ⟨PG, []⟩
def cAll : GroundCompiled := (grounderCompile id false PG).getD ⟨PG, []⟩

theorem some_getD {α : Type} {o : Option α} (d : α) (h : o.isSome = true) : o = some (o.getD d) := by
  cases o with
  | none => cases h
  | some x => rfl

theorem initG (g0 : St) (h : initOf WG = some g0) : g0 (fRoad, [.o "o1"]) = some (.b true) ∧
    g0 (fRoad, [.o "o2"]) = some (.b false) := by
  obtain ⟨s0, hs0, rfl⟩ := initOf_some h
  have : initialState? WG.P = some ⟨[((fRoad, [.o "o1"]), .b true)]⟩ := by decide +kernel
  rw [this] at hs0
  cases hs0
  constructor <;> decide +kernel

theorem evalRoad (g : St) (o t : String) :
    eval (ctxOf WG g) [] (road (.leaf (.obj o t))) = (match g (fRoad, [.o o]) with
      | some v => .ok v
      | none => .error .missing) := rfl

theorem evalNotRoad (g : St) (o t : String) (b : Bool) (h : g (fRoad, [.o o]) = some (.b b)) :
    eval (ctxOf WG g) [] (Expr.mkNot (road (.leaf (.obj o t)))) = .ok (.b !b) := by
  have h1 : eval (ctxOf WG g) [] (road (.leaf (.obj o t))) = .ok (.b b) := by rw [evalRoad, h]
  have : Expr.mkNot (road (.leaf (.obj o t))) = .app .not [road (.leaf (.obj o t))] := rfl
  rw [this]
  simp only [eval, evalList, h1]
  rfl

theorem substRoad (σ : Subst) (h : ∀ kv ∈ σ, kv.1.isConstant = false) (hl : LeafKeys σ) (o t : String) :
    substE σ (road (.leaf (.obj o t))) = road (.leaf (.obj o t)) := by
  unfold road
  rw [substE_fluent hl]
  simp only [List.map_cons, List.map_nil]
  rw [substE_const h (by rfl)]

theorem substNotRoad (σ : Subst) (h : ∀ kv ∈ σ, kv.1.isConstant = false) (hl : LeafKeys σ) (o t : String) :
    substE σ (Expr.mkNot (road (.leaf (.obj o t)))) = Expr.mkNot (road (.leaf (.obj o t))) := by
  by_cases he : σ.isEmpty = true
  · unfold substE; rw [he]; rfl
  · have he' : σ.isEmpty = false := by simpa using he
    have h3 : substE σ = subst σ := by funext z; unfold substE; rw [he']; rfl
    have : Expr.mkNot (road (.leaf (.obj o t))) = .app .not [road (.leaf (.obj o t))] := rfl
    rw [this, h3, subst_app_leafKeys hl]
    simp only [List.map_cons, List.map_nil]
    rw [← h3, substRoad σ h hl]
    rfl

/-- `simpRoad` is exact on closed instances in every state that agrees with the initial state on the static fluents -/
theorem simpRoad_exact : ∀ g, StaticInv WG g → SimpInstExact (ctxOf WG g) WG.P simpRoad := by
    rintro g ⟨g0, hg0, hall⟩ vs objs e _ _
    obtain ⟨i1, i2⟩ := initG g0 hg0
    have hst : fRoad ∈ staticFluents WG.P := by decide +kernel
    have r1 : g (fRoad, [.o "o1"]) = some (.b true) := by rw [hall fRoad hst]; exact i1
    have r2 : g (fRoad, [.o "o2"]) = some (.b false) := by rw [hall fRoad hst]; exact i2
    have hk := varSubst_keys_nonconst WG.P vs objs
    have hl := varSubst_leafKeys WG.P vs objs
    unfold simpRoad
    split
    · rename_i h; subst h
      rw [substE_const hk (by rfl)]
      show _ = eval _ [] (substE _ (road (.leaf (.obj "o1" "T"))))
      rw [substRoad _ hk hl, evalRoad, r1]; rfl
    · split
      · rename_i h; subst h
        rw [substE_const hk (by rfl)]
        show _ = eval _ [] (substE _ (road (.leaf (.obj "o2" "T"))))
        rw [substRoad _ hk hl, evalRoad, r2]; rfl
      · split
        · rename_i h; subst h
          rw [substE_const hk (by rfl)]
          show _ = eval _ [] (substE _ (Expr.mkNot (road (.leaf (.obj "o1" "T")))))
          rw [substNotRoad _ hk hl, evalNotRoad g "o1" "T" true r1]; rfl
        · split
          · rename_i h; subst h
            rw [substE_const hk (by rfl)]
            show _ = eval _ [] (substE _ (Expr.mkNot (road (.leaf (.obj "o2" "T")))))
            rw [substNotRoad _ hk hl, evalNotRoad g "o2" "T" false r2]; rfl
          · rfl

end GroundEx

namespace GroundEx2
open GroundEx
/-! types `T`; objects `o1 o2 : T`; fluents `k(T) : int = 1` (static), `x : int = 0`; goal `x = 1`;
`inc()`: effect `forall w:T. x += k(w)`; the simplifier `simpK` replaces `k(w)` by `1` -/
def fK : FluentRef := ⟨"k", .int none none, [tT]⟩
def kW : Expr := .app (.fluent fK) [.leaf (.var vW)]
def inc : Action := { name := "inc", params := [], pre := [], effs := [eff eX kW Expr.tt .increase [vW]] }
def PV : Problem where
  name := "vanish"
  types := ⟨[("T", none)]⟩
  objects := [("o1", "T"), ("o2", "T")]
  fluents := [⟨fK, some (Expr.int 1)⟩, ⟨fX, some (Expr.int 0)⟩]
  init := []
  actions := [inc]
  goals := [Expr.mkEq eX (Expr.int 1)]
  traj := []
  metrics := []
def WV : World := { P := PV, simp := id, fn := fun _ _ => none }
def simpK (e : Expr) : Expr := if e = kW then Expr.int 1 else e
def cV : GroundCompiled := (grounderCompile simpK true PV).getD ⟨PV, []⟩

theorem evalK (g : St) (o : String) :
    eval (ctxOf WV g) [] (.app (.fluent fK) [objExpr WV.P o]) = (match g (fK, [.o o]) with
      | some v => Except.ok v
      | none => Except.error EvalErr.missing) := rfl

theorem simpK_exact (g : St) (hinv : StaticInv WV g) : SimpInstExact (ctxOf WV g) WV.P simpK := by
  obtain ⟨g0, hg0, hall⟩ := hinv
  intro vs objs e hl hcl
  unfold simpK
  split
  · rename_i h; subst h
    have hk := varSubst_keys_nonconst WV.P vs objs
    have hlk := varSubst_leafKeys WV.P vs objs
    rw [substE_const hk (e := Expr.int 1) rfl]
    have hw : vW ∈ vs := hcl vW (by decide +kernel)
    obtain ⟨o, ho⟩ := lookup_varSubst WV.P vs objs vW hw hl
    have h1 : substE (varSubst WV.P vs objs) kW = .app (.fluent fK) [objExpr WV.P o] := by
      unfold kW
      rw [substE_fluent hlk]
      simp only [List.map_cons, List.map_nil]
      rw [substE_leaf_some ho]
    rw [h1]
    have hst : fK ∈ staticFluents WV.P := by decide +kernel
    obtain ⟨s0, hs0, rfl⟩ := initOf_some hg0
    have hs : initialState? WV.P = some ⟨[]⟩ := by decide +kernel
    rw [hs] at hs0
    cases hs0
    have hv : g (fK, [.o o]) = some (.n 1) := by
      rw [hall fK hst]
      show (match ([] : List (GKey × Val)).lookup (fK, [Val.o o]) with
        | some v => some v
        | none => defaultOf WV.P fK) = some (.n 1)
      have : defaultOf WV.P fK = some (.n 1) := by decide +kernel
      rw [this]; rfl
    rw [evalK, hv]
    rfl
  · rfl

end GroundEx2

namespace GroundEx3
open GroundEx
/-! types `T`; object `o1 : T`; fluents `z : int = 0` (static), `zb : int = 5`, `b : bool = false`; goal `b`;
`a(p : T)`: effects `zb := 0`, `zb := z`, `b := true`; the simplifier `simpZ` replaces `z` by `0` -/
def fZ : FluentRef := ⟨"z", .int none none, []⟩
def fZb : FluentRef := ⟨"zb", .int none none, []⟩
def fBb : FluentRef := ⟨"b", .bool, []⟩
def eZ : Expr := .app (.fluent fZ) []
def actS : Action where
  name := "a"
  params := [("p", tT)]
  pre := []
  effs := [eff (.app (.fluent fZb) []) (Expr.int 0) Expr.tt .assign [],
           eff (.app (.fluent fZb) []) eZ Expr.tt .assign [],
           eff (.app (.fluent fBb) []) Expr.tt Expr.tt .assign []]
def PS : Problem where
  name := "static-conflict"
  types := ⟨[("T", none)]⟩
  objects := [("o1", "T")]
  fluents := [⟨fZ, some (Expr.int 0)⟩, ⟨fZb, some (Expr.int 5)⟩, ⟨fBb, some Expr.ff⟩]
  init := []
  actions := [actS]
  goals := [.app (.fluent fBb) []]
  traj := []
  metrics := []
def WS : World := { P := PS, simp := id, fn := fun _ _ => none }
def simpZ (e : Expr) : Expr := if e = eZ then Expr.int 0 else e
def cS : GroundCompiled := (grounderCompile simpZ true PS).getD ⟨PS, []⟩

theorem evalZ (g : St) : eval (ctxOf WS g) [] eZ = (match g (fZ, []) with
    | some v => Except.ok v
    | none => Except.error EvalErr.missing) := rfl

theorem simpZ_exact (g : St) (hinv : StaticInv WS g) : SimpInstExact (ctxOf WS g) WS.P simpZ := by
  obtain ⟨g0, hg0, hall⟩ := hinv
  intro vs objs e _ _
  unfold simpZ
  split
  · rename_i h; subst h
    have hk := varSubst_keys_nonconst WS.P vs objs
    have hlk := varSubst_leafKeys WS.P vs objs
    rw [substE_const hk (e := Expr.int 0) rfl]
    have h1 : substE (varSubst WS.P vs objs) eZ = eZ := by
      unfold eZ
      rw [substE_fluent hlk]
      rfl
    rw [h1, evalZ]
    have hst : fZ ∈ staticFluents WS.P := by decide +kernel
    obtain ⟨s0, hs0, rfl⟩ := initOf_some hg0
    have hs : initialState? WS.P = some ⟨[]⟩ := by decide +kernel
    rw [hs] at hs0
    cases hs0
    have hv : g (fZ, []) = some (.n 0) := by
      rw [hall fZ hst]
      decide +kernel
    rw [hv]
    rfl
  · rfl

end GroundEx3

end UPVerif.C06
