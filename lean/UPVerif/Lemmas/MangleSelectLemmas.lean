import UPVerif.Lemmas.MangleLemmas
import UPVerif.Core.MangleSelectSpec
/-! helper lemmas for `Props/C38Select.lean`: membership in the keyword set a writer selects -/
namespace UPVerif.Mangle

theorem table_subset_all (T : Tables) (t : KwTable) : ∀ k ∈ T.table t, k ∈ allPddlKeywords T := by
  intro k hk
  cases t <;> simp only [Tables.table] at hk <;> simp [allPddlKeywords, hk]

theorem mem_initKeywords (T : Tables) (sel : List (KwCond × KwTable)) (v : ProblemView) (k : Name) :
    k ∈ initKeywords T sel v ↔ k ∈ T.pddlGeneral ∨ ∃ p ∈ sel, p.1.eval v = true ∧ k ∈ T.table p.2 := by
  simp only [initKeywords, List.mem_append, List.mem_flatMap]
  constructor
  · rintro (h | ⟨p, hp, hk⟩)
    · exact Or.inl h
    · by_cases hc : p.1.eval v = true
      · rw [if_pos hc] at hk; exact Or.inr ⟨p, hp, hc, hk⟩
      · rw [if_neg hc] at hk; cases hk
  · rintro (h | ⟨p, hp, hc, hk⟩)
    · exact Or.inl h
    · exact Or.inr ⟨p, hp, by rw [if_pos hc]; exact hk⟩

theorem mem_maKeywords (T : Tables) (sel : List KwTable) (k : Name) :
    k ∈ maKeywords T sel ↔ k ∈ T.pddlGeneral ∨ ∃ t ∈ sel, k ∈ T.table t := by
  simp only [maKeywords, List.mem_append, List.mem_flatMap]

theorem initKeywords_subset (T : Tables) (sel : List (KwCond × KwTable)) (v : ProblemView) :
    ∀ k ∈ initKeywords T sel v, k ∈ allPddlKeywords T := by
  intro k hk
  rcases (mem_initKeywords T sel v k).1 hk with h | ⟨p, _, _, h⟩
  · simp [allPddlKeywords, h]
  · exact table_subset_all T p.2 k h

theorem maKeywords_subset (T : Tables) (sel : List KwTable) : ∀ k ∈ maKeywords T sel, k ∈ allPddlKeywords T := by
  intro k hk
  rcases (mem_maKeywords T sel k).1 hk with h | ⟨t, _, h⟩
  · simp [allPddlKeywords, h]
  · exact table_subset_all T t k h

end UPVerif.Mangle
