import UPVerif.Core.Walkers.Simplify
/-!
Helper lemmas for `Props/C11.lean`, part 1: the induction principle of `simpF` (one case per
`walk_*` family) and fuel monotonicity.  No Mathlib.
-/
namespace UPVerif.Simp
open Expr

/-- pointwise relation between two lists of equal length -/
inductive All₂ {α β : Type} (P : α → β → Prop) : List α → List β → Prop
  | nil : All₂ P [] []
  | cons {a b as bs} : P a b → All₂ P as bs → All₂ P (a :: as) (b :: bs)

theorem mapE_forall₂ {α β ε : Type} {f : α → Except ε β} {P : α → β → Prop}
    (h : ∀ a b, f a = .ok b → P a b) :
    ∀ (as : List α) (bs : List β), mapE f as = .ok bs → All₂ P as bs
  | [], bs, hm => by
    simp only [mapE, Except.ok.injEq] at hm; subst hm; exact .nil
  | a :: as, bs, hm => by
    simp only [mapE] at hm
    split at hm
    · cases hm
    · rename_i bs' hbs
      split at hm
      · cases hm
      · rename_i b hb
        simp only [Except.ok.injEq] at hm; subst hm
        exact .cons (h a b hb) (mapE_forall₂ h as bs' hbs)

/-- induction principle: to prove `P e (simplified e)` it suffices to treat each node function on
    already-related children; for `Exists` the fresh simplifier `resimp` is any function all of whose
    results are related to their inputs -/
theorem simpF_induct (cfg : SimpCfg) (P : Expr → Expr → Prop)
    (hleaf : ∀ l, P (.leaf l) (.leaf l))
    (happ : ∀ op args as e', All₂ P args as → walkApp cfg op as = .ok e' →
      P (.app op args) e')
    (hall : ∀ vs b b', P b b' → P (.quant .all vs b) (walkForall vs b'))
    (hex : ∀ vs b b' e' (resimp : Expr → Except SimpErr Expr), P b b' →
      (∀ x y, resimp x = .ok y → P x y) → walkExists cfg resimp vs b' = .ok e' →
      P (.quant .ex vs b) e') :
    ∀ n e e', simpF cfg n e = .ok e' → P e e' := by
  intro n
  induction n with
  | zero => intro e e' h; simp [simpF] at h
  | succ n ih =>
    intro e e' h
    match e with
    | .leaf l =>
      simp only [simpF, Except.ok.injEq] at h; subst h; exact hleaf l
    | .app op args =>
      simp only [simpF] at h
      split at h
      · cases h
      · rename_i as has
        exact happ op args as e' (mapE_forall₂ ih args as has) h
    | .quant .all vs b =>
      simp only [simpF] at h
      split at h
      · cases h
      · rename_i b' hb
        simp only [Except.ok.injEq] at h; subst h
        exact hall vs b b' (ih b b' hb)
    | .quant .ex vs b =>
      simp only [simpF] at h
      split at h
      · cases h
      · rename_i b' hb
        exact hex vs b b' e' (simpF cfg n) (ih b b' hb) ih h

/-! ### fuel monotonicity: a result other than `.fuel` does not depend on the fuel -/

/-- `g` agrees with `f` wherever `f` does not run out of fuel -/
def Extends (f g : Expr → Except SimpErr Expr) : Prop :=
  ∀ a r, f a = r → r ≠ .error .fuel → g a = r

theorem mapE_mono {f g : Expr → Except SimpErr Expr} (hfg : Extends f g) :
    ∀ (as : List Expr) (r : Except SimpErr (List Expr)), mapE f as = r → r ≠ .error .fuel →
      mapE g as = r
  | [], r, h, _ => by simpa [mapE] using h
  | a :: as, r, h, hr => by
    simp only [mapE] at h ⊢
    cases htl : mapE f as with
    | error e =>
      rw [htl] at h; simp only at h
      have : Except.error e ≠ (Except.error SimpErr.fuel : Except SimpErr (List Expr)) := by
        rw [h]; exact hr
      rw [mapE_mono hfg as _ htl this]; exact h
    | ok bs =>
      rw [htl] at h; simp only at h
      rw [mapE_mono hfg as _ htl (by simp)]
      simp only
      cases hfa : f a with
      | error e =>
        rw [hfa] at h; simp only at h
        have : (Except.error e : Except SimpErr Expr) ≠ .error .fuel := by
          intro he; cases he; exact hr h.symm
        rw [hfg a _ hfa this]; exact h
      | ok b =>
        rw [hfa] at h; simp only at h
        rw [hfg a _ hfa (by simp)]; exact h

theorem elimLoop_succ_other {cfg : SimpCfg} (f : Expr → Except SimpErr Expr) (k : Nat)
    (vars : List Var) (e : Expr) (h : ∀ cs, e ≠ .app .and cs) :
    elimLoop cfg f (k + 1) vars e = .ok (vars, e) := by
  unfold elimLoop
  split
  · rename_i cs; exact absurd rfl (h cs)
  · rfl

theorem elimLoop_mono {cfg : SimpCfg} {f g : Expr → Except SimpErr Expr} (hfg : Extends f g) :
    ∀ (k : Nat) (vars : List Var) (e : Expr) (r : Except SimpErr (List Var × Expr)),
      elimLoop cfg f k vars e = r → r ≠ .error .fuel → elimLoop cfg g k vars e = r
  | 0, vars, e, r, h, _ => by simpa [elimLoop] using h
  | k + 1, vars, e, r, h, hr => by
    by_cases hform : ∃ cs, e = .app .and cs
    · obtain ⟨cs, rfl⟩ := hform
      simp only [elimLoop] at h ⊢
      cases hf : findElim cfg vars [] cs with
      | none => rw [hf] at h; exact h
      | some t =>
        obtain ⟨x, value, rest⟩ := t
        rw [hf] at h; simp only at h ⊢
        cases hfa : f (subst [(.leaf (.var x), value)] rest) with
        | error err =>
          rw [hfa] at h; simp only at h
          have : (Except.error err : Except SimpErr Expr) ≠ .error .fuel := by
            intro he; cases he; exact hr h.symm
          rw [hfg _ _ hfa this]; exact h
        | ok e1 =>
          rw [hfa] at h; simp only at h
          rw [hfg _ _ hfa (by simp)]
          exact elimLoop_mono hfg k _ e1 r h hr
    · have hform' : ∀ cs, e ≠ .app .and cs := fun cs hcs => hform ⟨cs, hcs⟩
      rw [elimLoop_succ_other f k vars e hform'] at h
      rw [elimLoop_succ_other g k vars e hform']; exact h

theorem walkExists_mono {cfg : SimpCfg} {f g : Expr → Except SimpErr Expr} (hfg : Extends f g)
    (vs : List Var) (b : Expr) (r : Except SimpErr Expr)
    (h : walkExists cfg f vs b = r) (hr : r ≠ .error .fuel) : walkExists cfg g vs b = r := by
  unfold walkExists at h ⊢
  simp only at h ⊢
  cases hl : elimLoop cfg f (vs.filter (fun v => (freeVars b).contains v)).length
      (vs.filter (fun v => (freeVars b).contains v)) b with
  | error err =>
    rw [hl] at h; simp only at h
    have : (Except.error err : Except SimpErr (List Var × Expr)) ≠ .error .fuel := by
      intro he; cases he; exact hr h.symm
    rw [elimLoop_mono hfg _ _ _ _ hl this]; exact h
  | ok p =>
    rw [hl] at h
    rw [elimLoop_mono hfg _ _ _ _ hl (by simp)]; exact h

/-- more fuel never changes a result other than "out of fuel" -/
theorem simpF_mono (cfg : SimpCfg) : ∀ n, Extends (simpF cfg n) (simpF cfg (n + 1))
  | 0, e, r, h, hr => by
    simp only [simpF] at h; exact absurd h.symm hr
  | n + 1, .leaf l, r, h, _ => by simpa [simpF] using h
  | n + 1, .app op args, r, h, hr => by
    simp only [simpF] at h ⊢
    cases hm : mapE (simpF cfg n) args with
    | error err =>
      rw [hm] at h; simp only at h
      have : (Except.error err : Except SimpErr (List Expr)) ≠ .error .fuel := by
        intro he; cases he; exact hr h.symm
      rw [mapE_mono (simpF_mono cfg n) args _ hm this]; exact h
    | ok as =>
      rw [hm] at h; simp only at h
      rw [mapE_mono (simpF_mono cfg n) args _ hm (by simp)]; exact h
  | n + 1, .quant .all vs b, r, h, hr => by
    simp only [simpF] at h ⊢
    cases hb : simpF cfg n b with
    | error err =>
      rw [hb] at h; simp only at h
      have : (Except.error err : Except SimpErr Expr) ≠ .error .fuel := by
        intro he; cases he; exact hr h.symm
      rw [simpF_mono cfg n b _ hb this]; exact h
    | ok b' =>
      rw [hb] at h; simp only at h
      rw [simpF_mono cfg n b _ hb (by simp)]; exact h
  | n + 1, .quant .ex vs b, r, h, hr => by
    simp only [simpF] at h ⊢
    cases hb : simpF cfg n b with
    | error err =>
      rw [hb] at h; simp only at h
      have : (Except.error err : Except SimpErr Expr) ≠ .error .fuel := by
        intro he; cases he; exact hr h.symm
      rw [simpF_mono cfg n b _ hb this]; exact h
    | ok b' =>
      rw [hb] at h; simp only at h
      rw [simpF_mono cfg n b _ hb (by simp)]
      exact walkExists_mono (simpF_mono cfg n) vs b' r h hr

theorem simpF_mono_le (cfg : SimpCfg) {n m : Nat} (hnm : n ≤ m) (e : Expr)
    (r : Except SimpErr Expr) (h : simpF cfg n e = r) (hr : r ≠ .error .fuel) : simpF cfg m e = r := by
  induction hnm with
  | refl => exact h
  | step _ ih => exact simpF_mono cfg _ e r ih hr

end UPVerif.Simp
