import UPVerif.Lemmas.PddlNumLemmas
import Mathlib.Data.Rat.Defs
import Mathlib.Algebra.Order.Field.Rat
import Mathlib.Tactic.Ring
import Mathlib.Tactic.Linarith
/-! The rational step of the exact-decimal round trip (uses Mathlib's field lemmas on core `Rat`). -/
namespace UPVerif.Pddl

theorem den_dvd_pow10 {den e2 e5 : Nat} (h : den = 2 ^ e2 * 5 ^ e5) : den ∣ 10 ^ (max e2 e5) := by
  subst h
  have h10 : (10 : Nat) ^ (max e2 e5) = 2 ^ (max e2 e5) * 5 ^ (max e2 e5) := by
    rw [← Nat.mul_pow]
  rw [h10]
  exact Nat.mul_dvd_mul (Nat.pow_dvd_pow 2 (Nat.le_max_left _ _)) (Nat.pow_dvd_pow 5 (Nat.le_max_right _ _))

theorem rat_of_cross {x y a d s : Nat} (hy : y ≠ 0) (hd : d ≠ 0) (h1 : x * 10 ^ s = (a * 10 ^ s / d) * y)
    (hdvd : d ∣ a * 10 ^ s) : (x : Rat) / (y : Rat) = (a : Rat) / (d : Rat) := by
  have hN : a * 10 ^ s / d * d = a * 10 ^ s := Nat.div_mul_cancel hdvd
  have h10 : (10 : Nat) ^ s ≠ 0 := Nat.ne_of_gt (Nat.pow_pos (by omega))
  have key : x * d = a * y := by
    have : x * d * 10 ^ s = a * y * 10 ^ s := by
      calc x * d * 10 ^ s = x * 10 ^ s * d := by ring
        _ = (a * 10 ^ s / d) * y * d := by rw [h1]
        _ = (a * 10 ^ s / d * d) * y := by ring
        _ = a * 10 ^ s * y := by rw [hN]
        _ = a * y * 10 ^ s := by ring
    exact Nat.eq_of_mul_eq_mul_right (Nat.pos_of_ne_zero h10) this
  have hy' : (y : Rat) ≠ 0 := by exact_mod_cast hy
  have hd' : (d : Rat) ≠ 0 := by exact_mod_cast hd
  rw [div_eq_div_iff hy' hd']
  exact_mod_cast key

/-- the exact decimal text of a rational is read back (`Fraction(text)`) as that rational -/
theorem parseNumberChars_decimalChars (r : Rat) (cs : List Char) (h : decimalChars r = some cs) :
    parseNumberChars cs = some r := by
  unfold decimalChars at h
  have s2 := stripFactor_spec 2 r.den r.den
  cases h2 : stripFactor 2 r.den r.den with
  | mk e2 d2 =>
    rw [h2] at h s2
    dsimp only at h s2
    have s5 := stripFactor_spec 5 d2 d2
    cases h5 : stripFactor 5 d2 d2 with
    | mk e5 d5 =>
      rw [h5] at h s5
      dsimp only at h s5
      by_cases hd5 : (d5 == 1) = true
      · simp only [hd5, ↓reduceIte, Option.some.injEq] at h
        have hd5' : d5 = 1 := by simpa using hd5
        have hden : r.den = 2 ^ e2 * 5 ^ e5 := by
          rw [s2, s5, hd5']
          simp
        have hdvd : r.den ∣ r.num.natAbs * 10 ^ (max e2 e5) := Dvd.dvd.mul_left (den_dvd_pow10 hden) _
        obtain ⟨x, y, hy, hxy, hparse, c, cs', hip, hc1, hc2⟩ :=
          decimalBody_spec (r.num.natAbs * 10 ^ (max e2 e5) / r.den) (max e2 e5)
        have hval : (x : Rat) / (y : Rat) = (r.num.natAbs : Rat) / (r.den : Rat) :=
          rat_of_cross hy r.den_nz hxy hdvd
        by_cases hneg : r < 0
        · simp only [hneg, ↓reduceIte] at h
          subst h
          simp only [List.cons_append, List.nil_append, List.append_assoc, parseNumberChars]
          rw [hparse]
          simp only [Option.map_some, Option.some.injEq]
          rw [hval]
          have hnum : r.num < 0 := Rat.num_neg.mpr hneg
          have : (r.num.natAbs : Rat) = -(r.num : Rat) := by
            rw [← Int.cast_natCast, Int.ofNat_natAbs_of_nonpos (le_of_lt hnum), Int.cast_neg]
          rw [this]
          conv => rhs; rw [← Rat.num_div_den r]
          ring
        · simp only [hneg, ↓reduceIte, List.nil_append] at h
          subst h
          simp only [List.append_assoc, List.cons_append, List.nil_append] at hparse ⊢
          rw [hip] at hparse ⊢
          simp only [List.cons_append] at hparse ⊢
          rw [parseNumberChars_of_head hc1 hc2, hparse, hval]
          have hnum : 0 ≤ r.num := by
            have := Rat.num_nonneg.mpr (not_lt.mp hneg)
            exact this
          have h' : (r.num.natAbs : Rat) = (r.num : Rat) := by
            rw [← Int.cast_natCast, Int.natAbs_of_nonneg hnum]
          rw [h']
          congr 1
          exact Rat.num_div_den r
      · simp [hd5] at h

theorem parseNumber_decimalStr (r : Rat) (s : String) (h : decimalStr r = some s) : parseNumber s = some r := by
  unfold decimalStr at h
  cases hc : decimalChars r with
  | none => simp [hc] at h
  | some cs =>
    simp only [hc, Option.map_some, Option.some.injEq] at h
    subst h
    unfold parseNumber
    rw [String.toList_ofList]
    exact parseNumberChars_decimalChars r cs hc

end UPVerif.Pddl
