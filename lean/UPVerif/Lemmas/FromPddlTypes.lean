import UPVerif.Lemmas.FromPddlAction
/-!
Helper lemmas for C21, the declarations: the converter's type table (`_convert_types`, from_pddl.py:385) maps every PDDL
type name it knows to the user type OF THAT NAME (or to `None`, for `object` when nothing is typed `object`).
-/
namespace UPVerif.FromPddl
open UPVerif UPVerif.Expr UPVerif.Pddl

/-- every entry of the table is `name ↦ name` or `name ↦ None` -/
def TabOK (tab : TypeTab) : Prop := ∀ p ∈ tab, p.2 = none ∨ p.2 = some p.1

theorem TabOK.id {tab : TypeTab} (h : TabOK tab) : ∀ t n, (tab.lookup t).join = some n → n = t := by
  induction tab with
  | nil => intro t n hl; simp at hl
  | cons p rest ih =>
    intro t n hl
    obtain ⟨k, v⟩ := p
    rw [List.lookup_cons] at hl
    cases hk : (t == k) with
    | true =>
      simp only [hk] at hl
      have hkt : t = k := by simpa using hk
      rcases h (k, v) (by simp) with h0 | h0
      · simp only at h0; subst h0; simp at hl
      · simp only at h0; subst h0
        simp only [Option.join_some, Option.some.injEq] at hl
        rw [← hl, hkt]
    | false =>
      simp only [hk] at hl
      exact ih (fun q hq => h q (List.mem_cons_of_mem _ hq)) t n hl

theorem TabOK.append {a b : TypeTab} (ha : TabOK a) (hb : TabOK b) : TabOK (a ++ b) := by
  intro p hp
  rcases List.mem_append.1 hp with h | h
  · exact ha p h
  · exact hb p h

theorem TabOK.filter {a : TypeTab} (ha : TabOK a) (f : String × Option String → Bool) : TabOK (a.filter f) :=
  fun p hp => ha p (List.mem_filter.1 hp).1

theorem TabOK.single (n : String) : TabOK [(n, some n)] := by
  intro p hp
  simp only [List.mem_singleton] at hp
  subst hp
  exact Or.inr rfl

theorem convertRemaining_tabOK : ∀ (fuel chances : Nat) (rem : List (String × String)) (tab : TypeTab)
    (ups : List (String × Option String)) (tab' : TypeTab) (ups' : List (String × Option String)), TabOK tab →
    convertRemaining fuel chances rem tab ups = some (tab', ups') → TabOK tab'
  | _, _, [], tab, ups, tab', ups', h, he => by
    simp only [convertRemaining, Option.some.injEq, Prod.mk.injEq] at he
    rw [← he.1]; exact h
  | 0, 0, _ :: _, _, _, _, _, _, he => by simp [convertRemaining] at he
  | _ + 1, 0, _ :: _, _, _, _, _, _, he => by simp [convertRemaining] at he
  | 0, _ + 1, _ :: _, _, _, _, _, _, he => by simp [convertRemaining] at he
  | fuel + 1, chances + 1, (n, f) :: rest, tab, ups, tab', ups', h, he => by
    rw [convertRemaining] at he
    split at he
    · exact convertRemaining_tabOK fuel _ _ _ _ tab' ups' (h.append (TabOK.single n)) he
    · exact convertRemaining_tabOK fuel _ _ _ _ tab' ups' h he

theorem foldl_inv {α β : Type} (I : α → Prop) (f : α → β → α) (hf : ∀ a b, I a → I (f a b)) :
    ∀ (l : List β) (a : α), I a → I (l.foldl f a)
  | [], a, h => h
  | b :: l, a, h => foldl_inv I f hf l (f a b) (hf a b h)

/-- `_convert_types`: the table it builds is the identity on the names it maps -/
theorem convertTypes_id {hasObj : Bool} {types : List (String × Option String)} {tab : TypeTab}
    {ups : List (String × Option String)} (h : convertTypes hasObj types = some (tab, ups)) :
    ∀ t n, (tab.lookup t).join = some n → n = t := by
  apply TabOK.id
  unfold convertTypes at h
  simp only at h
  generalize hfold : List.foldl _ _ types = st at h
  obtain ⟨tab1, ups1, rem1⟩ := st
  have h1 : TabOK tab1 := by
    show TabOK (tab1, ups1, rem1).1
    rw [← hfold]
    apply foldl_inv (fun (st : TypeTab × List (String × Option String) × List (String × String)) => TabOK st.1)
    · intro a b ha
      obtain ⟨ta, ua, ra⟩ := a
      simp only
      split
      · exact (TabOK.filter ha _).append (TabOK.single _)
      · split
        · exact (TabOK.filter ha _).append (TabOK.single _)
        · exact ha
    · intro p hp
      simp only [List.mem_singleton] at hp
      subst hp
      cases hasObj
      · exact Or.inl rfl
      · exact Or.inr rfl
  exact convertRemaining_tabOK _ _ _ _ _ tab ups h1 h

end UPVerif.FromPddl
