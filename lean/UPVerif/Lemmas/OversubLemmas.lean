import UPVerif.Core.Oversub
import Mathlib.Algebra.Order.Field.Rat
import Mathlib.Tactic.Linarith
/-! Helper lemmas for `Props/C31.lean`, oversubscription part: `combinations`/`powerset` enumerate exactly
the sublists, the stable descending sort is a sorted permutation, the weight loop is a sum, and the
shape of every run of `Oversub.loop`. -/
namespace UPVerif.Oversub

/-! ### combinations / powerset -/

theorem combs_zero {α : Type} (s : List α) : combs s 0 = [[]] := by
  cases s <;> rfl

theorem mem_combs {α : Type} : ∀ (s : List α) (r : Nat) (l : List α),
    l ∈ combs s r ↔ l.Sublist s ∧ l.length = r
  | s, 0, l => by
    rw [combs_zero]
    constructor
    · intro h
      have : l = [] := by simpa using h
      subst this
      exact ⟨List.nil_sublist _, rfl⟩
    · rintro ⟨_, h⟩
      have : l = [] := List.length_eq_zero_iff.mp h
      simp [this]
  | [], r + 1, l => by
    simp only [combs, List.not_mem_nil, false_iff]
    rintro ⟨h, hl⟩
    have : l = [] := List.sublist_nil.mp h
    subst this
    simp at hl
  | x :: xs, r + 1, l => by
    simp only [combs, List.mem_append, List.mem_map]
    rw [List.sublist_cons_iff]
    constructor
    · rintro (⟨l', hl', rfl⟩ | h)
      · obtain ⟨hs, hlen⟩ := (mem_combs xs r l').mp hl'
        exact ⟨Or.inr ⟨l', rfl, hs⟩, by simp [hlen]⟩
      · obtain ⟨hs, hlen⟩ := (mem_combs xs (r + 1) l).mp h
        exact ⟨Or.inl hs, hlen⟩
    · rintro ⟨hs | ⟨l', rfl, hs⟩, hlen⟩
      · exact Or.inr ((mem_combs xs (r + 1) l).mpr ⟨hs, hlen⟩)
      · refine Or.inl ⟨l', (mem_combs xs r l').mpr ⟨hs, ?_⟩, rfl⟩
        simpa using hlen

/-- `powerset s` enumerates exactly the sublists (order-preserving sub-sequences) of `s` -/
theorem mem_powerset {α : Type} (s l : List α) : l ∈ powerset s ↔ l.Sublist s := by
  unfold powerset
  simp only [List.mem_flatMap, List.mem_range]
  constructor
  · rintro ⟨r, _, h⟩
    exact ((mem_combs s r l).mp h).1
  · intro h
    exact ⟨l.length, Nat.lt_succ_of_le h.length_le, (mem_combs s _ l).mpr ⟨h, rfl⟩⟩

/-! ### weights -/

/-- sum of the weights of a goal list -/
def wsum {G : Type} (l : List (G × Rat)) : Rat := (l.map Prod.snd).sum

theorem wsum_nil {G : Type} : wsum ([] : List (G × Rat)) = 0 := rfl
theorem wsum_cons {G : Type} (a : G × Rat) (l : List (G × Rat)) : wsum (a :: l) = a.2 + wsum l := by
  simp [wsum]

theorem foldl_weight {G : Type} (l : List (G × Rat)) (a : Rat) :
    l.foldl (fun w gc => w + gc.2) a = a + wsum l := by
  induction l generalizing a with
  | nil => simp [wsum]
  | cons x xs ih => rw [List.foldl_cons, ih, wsum_cons, add_assoc]

/-- the accumulation loop computes the sum of the weights -/
theorem weight_eq_wsum {G : Type} (l : List (G × Rat)) : weight l = wsum l := by
  unfold weight; rw [foldl_weight, zero_add]

/-! ### the stable descending sort -/

theorem perm_insertDesc {β : Type} (x : Rat × β) (l : List (Rat × β)) : (insertDesc x l).Perm (x :: l) := by
  induction l with
  | nil => exact List.Perm.refl _
  | cons y ys ih =>
    unfold insertDesc
    split
    · exact List.Perm.refl _
    · exact (List.Perm.cons y ih).trans (List.Perm.swap x y ys)

theorem perm_sortDesc {β : Type} (l : List (Rat × β)) : (sortDesc l).Perm l := by
  induction l with
  | nil => exact List.Perm.refl _
  | cons x xs ih => exact (perm_insertDesc x _).trans (List.Perm.cons x ih)

theorem mem_sortDesc {β : Type} (l : List (Rat × β)) (x : Rat × β) : x ∈ sortDesc l ↔ x ∈ l :=
  (perm_sortDesc l).mem_iff

/-- "sorted by descending weight" -/
def Desc {β : Type} (l : List (Rat × β)) : Prop := l.Pairwise (fun a b => b.1 ≤ a.1)

theorem desc_insertDesc {β : Type} (x : Rat × β) (l : List (Rat × β)) (h : Desc l) : Desc (insertDesc x l) := by
  induction l with
  | nil => simp [insertDesc, Desc]
  | cons y ys ih =>
    unfold Desc at h ⊢
    rw [List.pairwise_cons] at h
    unfold insertDesc
    split
    · rename_i hyx
      rw [List.pairwise_cons]
      refine ⟨?_, List.pairwise_cons.mpr h⟩
      intro z hz
      rcases List.mem_cons.mp hz with rfl | hz
      · exact hyx
      · exact le_trans (h.1 z hz) hyx
    · rename_i hyx
      rw [List.pairwise_cons]
      refine ⟨?_, ih h.2⟩
      intro z hz
      rcases List.mem_cons.mp ((perm_insertDesc x ys).mem_iff.mp hz) with rfl | hz
      · exact le_of_lt (not_le.mp hyx)
      · exact h.1 z hz

theorem desc_sortDesc {β : Type} (l : List (Rat × β)) : Desc (sortDesc l) := by
  induction l with
  | nil => simp [sortDesc, Desc]
  | cons x xs ih => exact desc_insertDesc x _ ih

/-- in a descending list, what comes before is at least as heavy, what comes after at most as heavy -/
theorem desc_split {β : Type} {pre post : List (Rat × β)} {t : Rat × β} (h : Desc (pre ++ t :: post)) :
    (∀ u ∈ pre, t.1 ≤ u.1) ∧ (∀ u ∈ post, u.1 ≤ t.1) := by
  unfold Desc at h
  rw [List.pairwise_append] at h
  obtain ⟨_, h2, h3⟩ := h
  rw [List.pairwise_cons] at h2
  exact ⟨fun u hu => h3 u hu t (List.mem_cons_self), fun u hu => h2.1 u hu⟩

/-! ### entries of the queue -/

theorem mem_queue {G : Type} (goals : List (G × Rat)) (t : Rat × List G) :
    t ∈ queue goals ↔ ∃ l, l.Sublist goals ∧ t = entry l := by
  unfold queue
  rw [mem_sortDesc, List.mem_map]
  constructor
  · rintro ⟨l, hl, rfl⟩; exact ⟨l, (mem_powerset _ _).mp hl, rfl⟩
  · rintro ⟨l, hl, rfl⟩; exact ⟨l, (mem_powerset _ _).mpr hl, rfl⟩

theorem desc_queue {G : Type} (goals : List (G × Rat)) : Desc (queue goals) := desc_sortDesc _

/-- with pairwise distinct keys (a Python dict), selecting from `goals` the entries whose key occurs in a
    sublist `l` gives back `l` -/
theorem filter_keys_sublist {G : Type} [DecidableEq G] {l goals : List (G × Rat)} (h : l.Sublist goals)
    (nd : (goals.map Prod.fst).Nodup) :
    goals.filter (fun gc => decide (gc.1 ∈ l.map Prod.fst)) = l := by
  induction h with
  | slnil => rfl
  | @cons l goals' a hs ih =>
    rw [List.map_cons, List.nodup_cons] at nd
    have hna : a.1 ∉ l.map Prod.fst := fun hm => nd.1 ((hs.map Prod.fst).subset hm)
    rw [List.filter_cons]
    simp only [hna, decide_false, Bool.false_eq_true, if_false]
    exact ih nd.2
  | @cons_cons l goals' a hs ih =>
    rw [List.map_cons, List.nodup_cons] at nd
    rw [List.filter_cons]
    simp only [List.map_cons, List.mem_cons, true_or, decide_true, if_true]
    congr 1
    refine Eq.trans (List.filter_congr ?_) (ih nd.2)
    intro gc hgc
    have hne : gc.1 ≠ a.1 := fun he => nd.1 (he ▸ List.mem_map_of_mem hgc)
    have hiff : (gc.1 = a.1 ∨ gc.1 ∈ l.map Prod.fst) ↔ gc.1 ∈ l.map Prod.fst :=
      ⟨fun h => h.elim (fun h => absurd h hne) id, Or.inr⟩
    exact decide_eq_decide.mpr hiff

/-! ### queries -/

/-- a valid plan satisfies the exact-subset encoding of the goals it achieves (`h g` = truth of goal `g` in its
    final state) -/
theorem encode_filter_holds {G : Type} [DecidableEq G] (goals : List (G × Rat)) (h : G → Bool) :
    ∀ gb ∈ encode goals ((goals.filter (fun gc => h gc.1)).map Prod.fst), h gb.1 = gb.2 := by
  intro gb hgb
  unfold encode at hgb
  obtain ⟨gc, hgc, rfl⟩ := List.mem_map.mp hgb
  simp only
  by_cases hh : h gc.1 = true
  · rw [hh]; symm
    exact decide_eq_true (List.mem_map.mpr ⟨gc, List.mem_filter.mpr ⟨hgc, hh⟩, rfl⟩)
  · have hf : h gc.1 = false := by simpa using hh
    rw [hf]; symm
    apply decide_eq_false
    intro hm
    obtain ⟨gc', hgc', he⟩ := List.mem_map.mp hm
    have := (List.mem_filter.mp hgc').2
    rw [he] at this
    exact hh this

/-- every entry of the queue is the encoding of a sub-list of the goals -/
theorem query_of_mem_queue {G : Type} [DecidableEq G] (goals : List (G × Rat)) (t : Rat × List G)
    (h : t ∈ queue goals) :
    ∃ l : List (G × Rat), l.Sublist goals ∧ encode goals t.2 = encode goals (l.map Prod.fst) := by
  obtain ⟨l, hl, rfl⟩ := (mem_queue goals t).mp h
  exact ⟨l, hl, rfl⟩

/-- the four queries for the goal list of the non-vacuity example of `Props/C31.lean` -/
theorem example_queries (Q : List (Nat × Bool))
    (h : ∃ l : List (Nat × Rat), l.Sublist [(0, 2), (1, -1)] ∧ Q = encode [(0, 2), (1, -1)] (l.map Prod.fst)) :
    Q = [(0, false), (1, false)] ∨ Q = [(0, true), (1, false)] ∨ Q = [(0, false), (1, true)] ∨
    Q = [(0, true), (1, true)] := by
  obtain ⟨l, hl, rfl⟩ := h
  have hm := (mem_powerset _ l).mpr hl
  simp only [powerset, List.length_cons, List.length_nil, List.range, List.range.loop, List.flatMap_cons,
    List.flatMap_nil, combs, List.map_cons, List.map_nil, List.append_nil, List.cons_append, List.nil_append,
    List.mem_cons, List.not_mem_nil, or_false] at hm
  rcases hm with rfl | rfl | rfl | rfl <;> simp [encode]

/-! ### runs of the loop -/

/-- a sub-answer after which the loop goes on without setting `incomplete`:
    neither positive, nor TIMEOUT, nor one of the four "incomplete" statuses -/
def Quiet (st : Status) : Prop := st.isPositive = false ∧ st ≠ .timeout ∧ st.isIncomplete = false

theorem quiet_cases {st : Status} (h : Quiet st) : st = .unsolvableProven ∨ st = .intermediate := by
  obtain ⟨h1, h2, h3⟩ := h
  cases st <;> simp_all [Status.isPositive, Status.isIncomplete]

variable {G Plan : Type} [DecidableEq G]

/-- every returned plan is the plan of a positive sub-answer on one of the queries of the queue -/
theorem loop_plan (ans : List (G × Bool) → Answer Plan) (goals : List (G × Rat)) :
    ∀ (q : List (Rat × List G)) (inc : Bool) (n : Nat) (π : Plan),
      (loop ans goals q inc n).plan = some π →
      ∃ t ∈ q, (ans (encode goals t.2)).status.isPositive = true ∧ (ans (encode goals t.2)).plan = some π
  | [], inc, n, π => by simp [loop]
  | t :: rest, inc, n, π => by
    intro h
    unfold loop at h
    simp only at h
    split at h
    · rename_i hp
      exact ⟨t, List.mem_cons_self, hp, h⟩
    · split at h
      · simp at h
      · split at h
        · obtain ⟨u, hu, h1, h2⟩ := loop_plan ans goals rest true (n + 1) π h
          exact ⟨u, List.mem_cons_of_mem _ hu, h1, h2⟩
        · obtain ⟨u, hu, h1, h2⟩ := loop_plan ans goals rest inc (n + 1) π h
          exact ⟨u, List.mem_cons_of_mem _ hu, h1, h2⟩

/-- shape of a run that ends in SOLVED_OPTIMALLY -/
theorem loop_opt (ans : List (G × Bool) → Answer Plan) (goals : List (G × Rat)) :
    ∀ (q : List (Rat × List G)) (inc : Bool) (n : Nat),
      (loop ans goals q inc n).status = .solvedOpt →
      inc = false ∧ goals ≠ [] ∧ ∃ pre t post, q = pre ++ t :: post ∧
        (∀ u ∈ pre, Quiet (ans (encode goals u.2)).status) ∧
        (ans (encode goals t.2)).status.isPositive = true ∧
        (loop ans goals q inc n).plan = (ans (encode goals t.2)).plan ∧
        (loop ans goals q inc n).calls = n + pre.length + 1
  | [], inc, n => by
    intro h; unfold loop at h; cases inc <;> simp at h
  | t :: rest, inc, n => by
    intro h
    unfold loop at h ⊢
    simp only at h ⊢
    split
    · rename_i hp
      rw [if_pos hp] at h
      simp only at h
      have hc : (inc || goals.isEmpty) = false := by
        cases hh : (inc || goals.isEmpty) <;> simp_all
      rw [Bool.or_eq_false_iff] at hc
      refine ⟨hc.1, ?_, [], t, rest, rfl, by simp, hp, rfl, by simp⟩
      intro hg; simp [hg] at hc
    · rename_i hp
      rw [if_neg hp] at h
      split
      · rename_i ht; rw [if_pos ht] at h; simp at h
      · rename_i ht
        rw [if_neg ht] at h
        split
        · rename_i hi
          rw [if_pos hi] at h
          have := (loop_opt ans goals rest true (n + 1) h).1
          simp at this
        · rename_i hi
          rw [if_neg hi] at h
          obtain ⟨h1, h2, pre, u, post, hq, hpre, hu, hpl, hcalls⟩ := loop_opt ans goals rest inc (n + 1) h
          refine ⟨h1, h2, t :: pre, u, post, by simp [hq], ?_, hu, hpl, ?_⟩
          · intro v hv
            rcases List.mem_cons.mp hv with rfl | hv
            · exact ⟨by simpa using hp, ht, by simpa using hi⟩
            · exact hpre v hv
          · rw [hcalls]; simp; omega

/-- shape of a run that ends in UNSOLVABLE_PROVEN -/
theorem loop_proven (ans : List (G × Bool) → Answer Plan) (goals : List (G × Rat)) :
    ∀ (q : List (Rat × List G)) (inc : Bool) (n : Nat),
      (loop ans goals q inc n).status = .unsolvableProven →
      inc = false ∧ (∀ u ∈ q, Quiet (ans (encode goals u.2)).status) ∧
        (loop ans goals q inc n).plan = none ∧ (loop ans goals q inc n).calls = n + q.length
  | [], inc, n => by
    intro h; unfold loop at h ⊢; cases inc <;> simp at h ⊢
  | t :: rest, inc, n => by
    intro h
    unfold loop at h ⊢
    simp only at h ⊢
    split
    · rename_i hp
      rw [if_pos hp] at h
      simp only at h
      split at h <;> simp at h
    · rename_i hp
      rw [if_neg hp] at h
      split
      · rename_i ht; rw [if_pos ht] at h; simp at h
      · rename_i ht
        rw [if_neg ht] at h
        split
        · rename_i hi
          rw [if_pos hi] at h
          have := (loop_proven ans goals rest true (n + 1) h).1
          simp at this
        · rename_i hi
          rw [if_neg hi] at h
          obtain ⟨h1, h2, h3, h4⟩ := loop_proven ans goals rest inc (n + 1) h
          refine ⟨h1, ?_, h3, by rw [h4]; simp; omega⟩
          intro v hv
          rcases List.mem_cons.mp hv with rfl | hv
          · exact ⟨by simpa using hp, ht, by simpa using hi⟩
          · exact h2 v hv

/-- where the three "no definite answer" results come from -/
theorem loop_origin (ans : List (G × Bool) → Answer Plan) (goals : List (G × Rat)) :
    ∀ (q : List (Rat × List G)) (inc : Bool) (n : Nat),
      ((loop ans goals q inc n).status = .timeout →
          ∃ t ∈ q, (ans (encode goals t.2)).status = .timeout) ∧
      ((loop ans goals q inc n).status = .unsolvableIncomplete →
          inc = true ∨ ∃ t ∈ q, (ans (encode goals t.2)).status.isIncomplete = true) ∧
      ((loop ans goals q inc n).status = .solvedSat →
          ∃ t ∈ q, (ans (encode goals t.2)).status.isPositive = true ∧
            (loop ans goals q inc n).plan = (ans (encode goals t.2)).plan)
  | [], inc, n => by
    unfold loop; cases inc <;> simp
  | t :: rest, inc, n => by
    unfold loop
    simp only
    split
    · rename_i hp
      refine ⟨?_, ?_, ?_⟩
      · intro h; split at h <;> simp at h
      · intro h; split at h <;> simp at h
      · intro _; exact ⟨t, List.mem_cons_self, hp, rfl⟩
    · rename_i hp
      split
      · rename_i ht
        refine ⟨fun _ => ⟨t, List.mem_cons_self, ht⟩, by simp, by simp⟩
      · rename_i ht
        split
        · rename_i hi
          obtain ⟨h1, h2, h3⟩ := loop_origin ans goals rest true (n + 1)
          refine ⟨?_, ?_, ?_⟩
          · intro h; obtain ⟨u, hu, hh⟩ := h1 h; exact ⟨u, List.mem_cons_of_mem _ hu, hh⟩
          · intro _; exact Or.inr ⟨t, List.mem_cons_self, hi⟩
          · intro h; obtain ⟨u, hu, hh⟩ := h3 h; exact ⟨u, List.mem_cons_of_mem _ hu, hh⟩
        · rename_i hi
          obtain ⟨h1, h2, h3⟩ := loop_origin ans goals rest inc (n + 1)
          refine ⟨?_, ?_, ?_⟩
          · intro h; obtain ⟨u, hu, hh⟩ := h1 h; exact ⟨u, List.mem_cons_of_mem _ hu, hh⟩
          · intro h
            rcases h2 h with hh | ⟨u, hu, hh⟩
            · exact Or.inl hh
            · exact Or.inr ⟨u, List.mem_cons_of_mem _ hu, hh⟩
          · intro h; obtain ⟨u, hu, hh⟩ := h3 h; exact ⟨u, List.mem_cons_of_mem _ hu, hh⟩

/-- the five statuses the meta-engine can return -/
theorem loop_status (ans : List (G × Bool) → Answer Plan) (goals : List (G × Rat)) :
    ∀ (q : List (Rat × List G)) (inc : Bool) (n : Nat),
      (loop ans goals q inc n).status ∈
        [Status.solvedSat, .solvedOpt, .timeout, .unsolvableIncomplete, .unsolvableProven]
  | [], inc, n => by unfold loop; cases inc <;> simp
  | t :: rest, inc, n => by
    unfold loop
    simp only
    split
    · split <;> simp
    · split
      · simp
      · split
        · exact loop_status ans goals rest true (n + 1)
        · exact loop_status ans goals rest inc (n + 1)

/-- with an underlying planner that gives a definite answer (positive or UNSOLVABLE_PROVEN) on the queries of the
    queue, the loop stops at the first query with a positive answer, `incomplete` still unset -/
theorem loop_definite (ans : List (G × Bool) → Answer Plan) (goals : List (G × Rat)) :
    ∀ (q : List (Rat × List G)) (n : Nat),
      (∀ u ∈ q, (ans (encode goals u.2)).status.isPositive = true ∨
                (ans (encode goals u.2)).status = .unsolvableProven) →
      (∃ t ∈ q, (ans (encode goals t.2)).status.isPositive = true) →
      (loop ans goals q false n).status = (if goals.isEmpty then Status.solvedSat else .solvedOpt)
  | [], n => by simp
  | t :: rest, n => by
    intro hdef h
    unfold loop
    simp only
    split
    · simp
    · rename_i hp
      have hst : (ans (encode goals t.2)).status = .unsolvableProven := by
        rcases hdef t List.mem_cons_self with h1 | h1
        · exact absurd h1 hp
        · exact h1
      rw [hst]
      simp only [Status.isIncomplete]
      have : (Status.unsolvableProven = Status.timeout) = False := by simp
      simp only [this, if_false]
      apply loop_definite ans goals rest (n + 1) (fun u hu => hdef u (List.mem_cons_of_mem _ hu))
      obtain ⟨u, hu, hpos⟩ := h
      rcases List.mem_cons.mp hu with rfl | hu
      · exact absurd hpos hp
      · exact ⟨u, hu, hpos⟩

end UPVerif.Oversub
