import UPVerif.Lemmas.CompileGroundStatic
/-!
Grounder (C06 / C07), part 4: static-fluent pruning is complete.

`pruning_complete`: in a state that satisfies the static invariant, an instance whose (substituted) preconditions all
evaluate to TRUE is among `get_possible_parameters(action)` with `prune_actions = True`.
-/
namespace UPVerif.Compile.Ground
open UPVerif UPVerif.Compile UPVerif.Expr UPVerif.Sim UPVerif.Spec

/-! ### decidable side conditions -/

/-- object nodes in the keys of the explicit initial values carry the declared type of the object (FNode equality of
    `ObjectExp` compares the `Object`, i.e. name and type) -/
def initKeysWF (P : Problem) : Bool :=
  P.init.all (fun kv => match kv.1 with
    | .app (.fluent _) as => as.all (fun x => match x with
      | .leaf (.obj o _) => x == objExpr P o
      | _ => true)
    | _ => true)

/-- an argument of a pruning condition whose value is, in every instance, an object of the type `t` -/
def argTyped (P : Problem) (a : Action) (x : Expr) (t : Ty) : Bool :=
  match x with
  | .leaf (.param n τ) => a.params.contains (n, τ) && (tyDomain P τ).all (fun o => (tyDomain P t).contains o)
  | .leaf (.obj o _) => (tyDomain P t).contains o
  | _ => false

/-- a pruning condition `f(a₁…aₙ)`: either the default of `f` is FALSE (the code then looks at the explicit initial
    values only), or its arguments are typed inside the signature of `f` (the code enumerates `get_all_fluent_exp`) -/
def condTyped (P : Problem) (a : Action) : Expr → Bool
  | .app (.fluent f) as =>
    (defaultExpr? P f).any Expr.isFalse ||
      (as.length == f.sig.length && (as.zip f.sig).all (fun xt => argTyped P a xt.1 xt.2))
  | _ => true

def pruneWF (P : Problem) : Bool :=
  initKeysWF P && P.actions.all (fun a =>
    decide ((a.params.map (·.1)).Nodup) && (boolStaticConds P a).all (condTyped P a))

/-! ### list facts -/

theorem mapM_some_getElem {α β : Type} {f : α → Option β} : ∀ {l : List α} {r : List β} {k : Nat},
    l.mapM f = some r → (∀ x, l[k]? = some x → ∃ y, r[k]? = some y ∧ f x = some y) ∧
      (∀ y, r[k]? = some y → ∃ x, l[k]? = some x ∧ f x = some y)
  | [], r, k, h => by
    simp at h; subst h
    exact ⟨fun x hx => by simp at hx, fun y hy => by simp at hy⟩
  | a :: l, r, k, h => by
    rw [List.mapM_cons] at h
    cases ha : f a with
    | none => simp [ha] at h
    | some b =>
      cases hl : l.mapM f with
      | none => simp [ha, hl] at h
      | some r' =>
        simp [ha, hl] at h
        subst h
        cases k with
        | zero =>
          refine ⟨fun x hx => ?_, fun y hy => ?_⟩
          · simp at hx; subst hx; exact ⟨b, by simp, ha⟩
          · simp at hy; subst hy; exact ⟨a, by simp, ha⟩
        | succ k =>
          simp only [List.getElem?_cons_succ]
          exact mapM_some_getElem hl

theorem mapM_some_mem {α β : Type} {f : α → Option β} {l : List α} {r : List β} (h : l.mapM f = some r) :
    (∀ y ∈ r, ∃ x ∈ l, f x = some y) ∧ (∀ x ∈ l, ∃ y ∈ r, f x = some y) := by
  constructor
  · intro y hy
    obtain ⟨k, hk⟩ := List.mem_iff_getElem?.1 hy
    obtain ⟨x, hx, hf⟩ := (mapM_some_getElem (k := k) h).2 y hk
    exact ⟨x, List.mem_of_getElem? hx, hf⟩
  · intro x hx
    obtain ⟨k, hk⟩ := List.mem_iff_getElem?.1 hx
    obtain ⟨y, hy, hf⟩ := (mapM_some_getElem (k := k) h).1 x hk
    exact ⟨y, List.mem_of_getElem? hy, hf⟩

theorem lookup_some_mem {κ ν : Type} [BEq κ] [LawfulBEq κ] : ∀ {l : List (κ × ν)} {k : κ} {v : ν},
    l.lookup k = some v → (k, v) ∈ l
  | [], _, _, h => by cases h
  | (k', v') :: l, k, v, h => by
    rw [List.lookup_cons] at h
    split at h
    · rename_i hk
      cases h
      have : k = k' := by simpa using hk
      subst this
      exact List.mem_cons_self ..
    · exact List.mem_cons_of_mem _ (lookup_some_mem h)

theorem lookup_none_not_mem {κ ν : Type} [BEq κ] [LawfulBEq κ] : ∀ {l : List (κ × ν)} {k : κ},
    l.lookup k = none → ∀ v, (k, v) ∉ l
  | [], _, _, _, hm => by cases hm
  | (k', v') :: l, k, h, v, hm => by
    rw [List.lookup_cons] at h
    split at h
    · cases h
    · rename_i hk
      rcases List.mem_cons.1 hm with h1 | h1
      · injection h1 with h2 _
        subst h2
        simp at hk
      · exact lookup_none_not_mem h v h1

theorem cons_mem_cartesian {α : Type} (o : α) (os : List α) (d : List α) (ds : List (List α)) :
    o :: os ∈ cartesian (d :: ds) ↔ o ∈ d ∧ os ∈ cartesian ds := by
  simp only [cartesian, List.mem_flatMap, List.mem_map]
  constructor
  · rintro ⟨x, hx, r, hr, h⟩
    injection h with h1 h2
    subst h1; subst h2
    exact ⟨hx, hr⟩
  · rintro ⟨h1, h2⟩
    exact ⟨o, h1, os, h2, rfl⟩

theorem reverse_mem_cartesian {α : Type} {ds : List (List α)} {l : List α} (h : l ∈ cartesian ds) :
    l.reverse ∈ cartesian ds.reverse := by
  obtain ⟨hl, hall⟩ := (mem_cartesian ds l).1 h
  refine (mem_cartesian _ _).2 ⟨by simp [hl], ?_⟩
  intro k x d hk hd
  have hlt : k < l.length := by
    have := (List.getElem?_eq_some_iff.1 hk).1
    simpa using this
  rw [List.getElem?_reverse hlt] at hk
  rw [List.getElem?_reverse (by omega)] at hd
  rw [← hl] at hd
  exact hall _ x d hk hd

theorem mapM_constVal_objExpr (P : Problem) : ∀ (os : List String),
    (os.map (objExpr P)).mapM constVal? = some (os.map Val.o)
  | [] => rfl
  | o :: os => by
    rw [List.map_cons, List.mapM_cons, mapM_constVal_objExpr P os]
    rfl

theorem constVal?_true {e : Expr} (h : constVal? e = some (.b true)) : e = Expr.tt := by
  cases e with
  | leaf l => cases l <;> simp [constVal?] at h; subst h; rfl
  | app op as => cases h
  | quant q vs b => cases h

theorem constVal?_obj {e : Expr} {o : String} (h : constVal? e = some (.o o)) : ∃ t, e = .leaf (.obj o t) := by
  cases e with
  | leaf l => cases l <;> simp [constVal?] at h; subst h; exact ⟨_, rfl⟩
  | app op as => cases h
  | quant q vs b => cases h

theorem keyOf?_some {ke : Expr} {f : FluentRef} {vs : List Val} (h : keyOf? ke = some (f, vs)) :
    ∃ as, ke = .app (.fluent f) as ∧ as.mapM constVal? = some vs := by
  unfold keyOf? at h
  split at h
  · rename_i f' as
    cases hm : as.mapM constVal? with
    | none => rw [hm] at h; cases h
    | some ws =>
      rw [hm] at h
      simp only [Option.map_some, Option.some.injEq, Prod.mk.injEq] at h
      obtain ⟨rfl, rfl⟩ := h
      exact ⟨as, rfl, hm⟩
  · cases h

/-- the conversion of one explicit initial value by `initialState?` -/
def initConv (fv : Expr × Expr) : Option (GKey × Val) := do
  let k ← keyOf? fv.1
  let v ← constVal? fv.2
  some (k, v)

theorem initialState?_eq (P : Problem) : initialState? P = (P.init.mapM initConv).map (fun l => ⟨l⟩) := rfl

theorem initConv_some {fv : Expr × Expr} {k : GKey} {v : Val} (h : initConv fv = some (k, v)) :
    keyOf? fv.1 = some k ∧ constVal? fv.2 = some v := by
  unfold initConv at h
  cases h1 : keyOf? fv.1 with
  | none => simp [h1] at h
  | some k' =>
    cases h2 : constVal? fv.2 with
    | none => simp [h1, h2] at h
    | some v' =>
      simp [h1, h2] at h
      obtain ⟨rfl, rfl⟩ := h
      exact ⟨rfl, rfl⟩

theorem sigPos_some {p : String × Ty} {f : FluentRef} {as : List Expr} {sp : Nat}
    (h : sigPos p (.app (.fluent f) as) = some sp) : as[sp]? = some (.leaf (.param p.1 p.2)) := by
  unfold sigPos at h
  dsimp only at h
  split at h
  · rename_i hlt
    cases h
    rw [List.getElem?_eq_getElem hlt]
    have := List.findIdx_getElem (w := hlt)
    simp only [beq_iff_eq] at this
    rw [this]
  · cases h

/-! ### the initial state, seen from `_bool_static_fluent_valid_parameters` -/

theorem init_true_valid {P : Problem} {s0 : SimState} (hs0 : initialState? P = some s0) (hwf : initKeysWF P = true)
    {f : FluentRef} {vs : List Val} {sp : Nat} {o : String}
    (hv : s0.get P (f, vs) = some (.b true)) (hsp : vs[sp]? = some (.o o))
    (hty : (defaultExpr? P f).any Expr.isFalse = false →
      ∃ os, vs = os.map Val.o ∧ os ∈ cartesian (f.sig.map (tyDomain P))) :
    objExpr P o ∈ validParams P f sp := by
  rw [initialState?_eq] at hs0
  cases hm : P.init.mapM initConv with
  | none => rw [hm] at hs0; cases hs0
  | some r =>
    rw [hm] at hs0
    simp only [Option.map_some, Option.some.injEq] at hs0
    subst hs0
    unfold SimState.get at hv
    dsimp only at hv
    cases hl : r.lookup (f, vs) with
    | some v =>
      rw [hl] at hv
      simp only [Option.some.injEq] at hv
      subst hv
      obtain ⟨fv, hfv, hconv⟩ := (mapM_some_mem hm).1 _ (lookup_some_mem hl)
      obtain ⟨hk, hcv⟩ := initConv_some hconv
      obtain ⟨as', hke, hmas⟩ := keyOf?_some hk
      have hve := constVal?_true hcv
      obtain ⟨x, hx, hxc⟩ := (mapM_some_getElem (k := sp) hmas).2 _ hsp
      obtain ⟨t, rfl⟩ := constVal?_obj hxc
      have hxo : Expr.leaf (.obj o t) = objExpr P o := by
        unfold initKeysWF at hwf
        rw [List.all_eq_true] at hwf
        have h1 := hwf fv hfv
        rw [hke] at h1
        dsimp only at h1
        rw [List.all_eq_true] at h1
        have h2 := h1 _ (List.mem_of_getElem? hx)
        simpa using h2
      unfold validParams
      rw [List.mem_filterMap]
      refine ⟨fv, ?_, ?_⟩
      · split
        · exact hfv
        · unfold initialValues; exact List.mem_append_left _ hfv
      · rw [hke, hve]
        simp only [beq_self_eq_true, Expr.isTrue, Expr.tt, Bool.and_self, if_true]
        rw [hx, hxo]
    | none =>
      rw [hl] at hv
      dsimp only at hv
      unfold defaultOf at hv
      cases hfd : P.fluents.find? (fun d => d.ref == f) with
      | none => rw [hfd] at hv; cases hv
      | some d =>
        rw [hfd] at hv
        simp only [Option.bind_some] at hv
        cases hdd : d.default with
        | none => rw [hdd] at hv; cases hv
        | some de =>
          rw [hdd] at hv
          simp only [Option.bind_some] at hv
          have hde := constVal?_true hv
          subst hde
          have hdef : defaultExpr? P f = some Expr.tt := by
            unfold defaultExpr?; rw [hfd]; simp [hdd]
          have hnf : (defaultExpr? P f).any Expr.isFalse = false := by rw [hdef]; rfl
          obtain ⟨os, rfl, hos⟩ := hty hnf
          have hdm : d ∈ P.fluents := List.mem_of_find?_eq_some hfd
          have hdr : d.ref = f := by simpa using List.find?_some hfd
          have hfe : mkFluent f (os.map (objExpr P)) ∈ allFluentExps P d.ref := by
            rw [hdr]
            unfold allFluentExps
            rw [List.mem_map]
            refine ⟨os.reverse, ?_, by rw [List.reverse_reverse]⟩
            have := reverse_mem_cartesian hos
            rw [← List.map_reverse] at this
            exact this
          have hlk : P.init.lookup (mkFluent f (os.map (objExpr P))) = none := by
            cases hlk : P.init.lookup (mkFluent f (os.map (objExpr P))) with
            | none => rfl
            | some w =>
              exfalso
              obtain ⟨y, hy, hconv⟩ := (mapM_some_mem hm).2 _ (lookup_some_mem hlk)
              obtain ⟨k, w'⟩ := y
              obtain ⟨hk, _⟩ := initConv_some hconv
              have : keyOf? (mkFluent f (os.map (objExpr P))) = some (f, os.map Val.o) := by
                show (List.mapM constVal? (os.map (objExpr P))).map (fun vs => (f, vs)) = _
                rw [mapM_constVal_objExpr]; rfl
              rw [this] at hk
              cases hk
              exact lookup_none_not_mem hl w' hy
          have hiv : initialValue? P (mkFluent f (os.map (objExpr P))) = some Expr.tt := by
            unfold initialValue?
            rw [hlk]
            exact hdef
          have hsp' : os[sp]? = some o := by
            rw [List.getElem?_map] at hsp
            cases ho : os[sp]? with
            | none => rw [ho] at hsp; cases hsp
            | some o' => rw [ho] at hsp; simp at hsp; rw [hsp]
          unfold validParams
          rw [List.mem_filterMap]
          refine ⟨(mkFluent f (os.map (objExpr P)), Expr.tt), ?_, ?_⟩
          · rw [hnf]
            simp only [Bool.false_eq_true, if_false]
            unfold initialValues
            apply List.mem_append_right
            rw [List.mem_flatMap]
            refine ⟨d, hdm, ?_⟩
            rw [List.mem_filterMap]
            exact ⟨_, hfe, by rw [hiv]; rfl⟩
          · unfold mkFluent
            simp only [beq_self_eq_true, Expr.isTrue, Expr.tt, Bool.and_self, if_true]
            rw [List.getElem?_map, hsp']
            rfl

/-! ### typed arguments of a pruning condition -/

theorem argTyped_eval {P : Problem} {a : Action} {args : List String} (c : EvalCtx) (hmem : args ∈ instancesOf P a)
    {x : Expr} {t : Ty} (h : argTyped P a x t = true) :
    ∃ o, eval c [] (substE (paramSubst P a args) x) = .ok (.o o) ∧ o ∈ tyDomain P t := by
  unfold instancesOf at hmem
  obtain ⟨hlen, hall⟩ := (mem_cartesian _ _).1 hmem
  simp only [List.length_map] at hlen
  unfold argTyped at h
  split at h
  · rename_i n τ
    rw [Bool.and_eq_true] at h
    have hp : (n, τ) ∈ a.params := by simpa using h.1
    obtain ⟨k, o, hk, ho, hlk⟩ := lookup_paramList_mem P a.params args (n, τ) hp hlen.symm
    have hl : (paramSubst P a args).lookup (.leaf (.param n τ)) = some (objExpr P o) := hlk
    refine ⟨o, by rw [substE_leaf_some hl]; rfl, ?_⟩
    have hd : (a.params.map (fun p => tyDomain P p.2))[k]? = some (tyDomain P τ) := by
      rw [List.getElem?_map, hk]; rfl
    have ho' := hall k o _ ho hd
    have h2 := h.2
    rw [List.all_eq_true] at h2
    simpa using h2 o ho'
  · rename_i o t'
    refine ⟨o, ?_, by simpa using h⟩
    rw [substE_const (paramSubst_keys_nonconst _ _ _) (by rfl)]
    rfl
  · cases h

theorem typed_evalList {P : Problem} {a : Action} {args : List String} (c : EvalCtx) (hmem : args ∈ instancesOf P a) :
    ∀ (as : List Expr) (sig : List Ty) (vs : List Val), as.length = sig.length →
      (as.zip sig).all (fun xt => argTyped P a xt.1 xt.2) = true →
      evalList c [] (as.map (substE (paramSubst P a args))) = .ok vs →
      ∃ os, vs = os.map Val.o ∧ os ∈ cartesian (sig.map (tyDomain P))
  | [], [], vs, _, _, h => by
    simp [evalList] at h
    subst h
    exact ⟨[], rfl, by simp [cartesian]⟩
  | [], _ :: _, _, hl, _, _ => by simp at hl
  | _ :: _, [], _, hl, _, _ => by simp at hl
  | x :: as, t :: sig, ws, hl, hall, h => by
    rw [List.map_cons] at h
    obtain ⟨v, vs, rfl, hv, hvs⟩ := evalList_cons_ok h
    simp only [List.zip_cons_cons, List.all_cons, Bool.and_eq_true] at hall
    obtain ⟨os, rfl, hos⟩ := typed_evalList c hmem as sig vs (by simpa using hl) hall.2 hvs
    obtain ⟨o, ho, hod⟩ := argTyped_eval c hmem hall.1
    rw [ho] at hv
    cases hv
    refine ⟨o :: os, rfl, ?_⟩
    rw [List.map_cons, cons_mem_cartesian]
    exact ⟨hod, hos⟩

/-! ### the pruning lemma -/

theorem mem_boolStaticConds {P : Problem} {a : Action} {c : Expr} (h : c ∈ boolStaticConds P a) :
    (∃ x ∈ a.pre, Conjunct x c) ∧ ∃ f as, c = .app (.fluent f) as ∧ f ∈ staticFluents P := by
  unfold boolStaticConds at h
  obtain ⟨h1, h2⟩ := List.mem_filter.1 h
  refine ⟨mem_splitAllAnds h1, ?_⟩
  unfold isBoolStaticCond at h2
  split at h2
  · rename_i f as
    rw [Bool.and_eq_true] at h2
    exact ⟨f, as, rfl, by simpa using h2.2⟩
  · cases h2

theorem initOf_some {W : World} {g0 : St} (h : initOf W = some g0) :
    ∃ s0, initialState? W.P = some s0 ∧ g0 = s0.get W.P := by
  unfold initOf at h
  cases hs : initialState? W.P with
  | none => rw [hs] at h; cases h
  | some s0 =>
    rw [hs] at h
    dsimp only at h
    split at h
    · cases h; exact ⟨s0, rfl, rfl⟩
    · cases h

/-- one pruning condition never removes the argument of an instance whose preconditions hold -/
theorem static_cond_valid {W : World} {g : St} {a : Action} {args : List String} (hwf : pruneWF W.P = true)
    (ha : a ∈ W.P.actions) (hinv : StaticInv W g) (hmem : args ∈ instancesOf W.P a)
    (hpre : preOK (ctxOf W g) (a.pre.map (substE (paramSubst W.P a args))) = true)
    {c : Expr} (hc : c ∈ boolStaticConds W.P a) {f : FluentRef} {as : List Expr} (hcf : c = .app (.fluent f) as)
    {k sp : Nat} {p : String × Ty} {o : String} (hp : a.params[k]? = some p) (ho : args[k]? = some o)
    (hsp : sigPos p c = some sp) : (validParams W.P f sp).contains (objExpr W.P o) = true := by
  unfold pruneWF at hwf
  rw [Bool.and_eq_true] at hwf
  obtain ⟨hwf1, hwf2⟩ := hwf
  rw [List.all_eq_true] at hwf2
  have hwa := hwf2 a ha
  rw [Bool.and_eq_true] at hwa
  have hnd : (a.params.map (·.1)).Nodup := by simpa using hwa.1
  have hct : condTyped W.P a c = true := by
    have := hwa.2
    rw [List.all_eq_true] at this
    exact this c hc
  obtain ⟨⟨x, hx, hconj⟩, f', as', hcf', hstat⟩ := mem_boolStaticConds hc
  rw [hcf] at hcf'
  injection hcf' with h1 h2
  injection h1 with h1
  subst h1; subst h2
  -- the condition is true in `g`
  have hxt : Spec.isTrue (eval (ctxOf W g) [] (substE (paramSubst W.P a args) x)) = true :=
    preOK_mem hpre (List.mem_map.2 ⟨x, hx, rfl⟩)
  have hct' := conjunct_true (paramSubst_leafKeys _ _ _) hconj hxt
  rw [hcf, substE_fluent (paramSubst_leafKeys _ _ _)] at hct'
  obtain ⟨vs, hvs, hget⟩ := eval_fluent_true hct'
  -- the argument at `sp` is the k-th parameter, i.e. the object `o`
  rw [hcf] at hsp
  have hasp := sigPos_some hsp
  have hasp' : (as.map (substE (paramSubst W.P a args)))[sp]? =
      some (substE (paramSubst W.P a args) (.leaf (.param p.1 p.2))) := by
    rw [List.getElem?_map, hasp]; rfl
  obtain ⟨v, hv, hev⟩ := evalList_getElem hvs hasp'
  have hlk : (paramSubst W.P a args).lookup (.leaf (.param p.1 p.2)) = some (objExpr W.P o) :=
    lookup_paramList W.P a.params args k p o hnd hp ho
  rw [substE_leaf_some hlk, eval_objExpr] at hev
  cases hev
  -- static: the value is the initial one
  obtain ⟨g0, hg0, hall⟩ := hinv
  obtain ⟨s0, hs0, rfl⟩ := initOf_some hg0
  have hget' : s0.get W.P (f, vs) = some (.b true) := by
    rw [← hall f hstat vs]; exact hget
  rw [List.contains_iff_mem]
  apply init_true_valid hs0 hwf1 hget' hv
  intro hnf
  rw [hcf] at hct
  simp only [condTyped, hnf, Bool.false_or, Bool.and_eq_true, beq_iff_eq] at hct
  exact typed_evalList (ctxOf W g) hmem as f.sig vs hct.1 hct.2 hvs

/-- STATIC-FLUENT PRUNING IS COMPLETE: it only removes instances whose preconditions are false in every state that
    agrees with the initial state on the static fluents -/
theorem pruning_complete {W : World} {g : St} {a : Action} {args : List String} (hwf : pruneWF W.P = true)
    (ha : a ∈ W.P.actions) (hinv : StaticInv W g) (hmem : args ∈ instancesOf W.P a)
    (hpre : preOK (ctxOf W g) (a.pre.map (substE (paramSubst W.P a args))) = true) :
    args ∈ possibleParameters W.P true a := by
  unfold possibleParameters
  split
  · rename_i he
    have : a.params = [] := by simpa using he
    unfold instancesOf at hmem
    rw [this] at hmem
    simpa [cartesian] using hmem
  · simp only [if_true]
    have hmem' := hmem
    unfold instancesOf at hmem'
    obtain ⟨hlen, hall⟩ := (mem_cartesian _ _).1 hmem'
    refine (mem_cartesian _ _).2 ⟨?_, ?_⟩
    · rw [length_purgeItems]
      · unfold paramDomains; exact hlen
      · simp [paramDomains]
    · intro k o d hk hd
      obtain ⟨p, it, hp, hit, rfl⟩ := getElem?_purgeItems hd
      rw [mem_foldl_purgeStep]
      refine ⟨hall k o it hk hit, ?_⟩
      intro c hc f as sp hcf hsp
      exact static_cond_valid hwf ha hinv hmem hpre hc hcf hp hk hsp

end UPVerif.Compile.Ground
