import UPVerif.Core.DagWalker
/-!
Helper lemmas for C14: the stack machine of `DagWalker` computes the pure recursion `pureWalk`
whenever it starts from a cache that is sound for the current keyword arguments, never needs more
than `2 * size` pops, and on failure leaves a sound cache behind.
-/
namespace UPVerif.Dag
open UPVerif

variable {Arg Val ε : Type}

/-! ### caches -/

theorem Memo.get?_cons (m : Memo Val) (k k' : Expr) (v : Val) :
    Memo.get? ((k', v) :: m) k = if k = k' then some v else Memo.get? m k := rfl

theorem Memo.get?_filter_ne (m : Memo Val) (k k' : Expr) (h : k' ≠ k) :
    Memo.get? (m.filter (fun p => decide (p.1 ≠ k))) k' = Memo.get? m k' := by
  induction m with
  | nil => rfl
  | cons p m ih =>
    obtain ⟨k₀, v₀⟩ := p
    by_cases hk : k₀ = k
    · subst hk
      simp only [List.filter, ne_eq, not_true_eq_false, decide_false]
      rw [ih, Memo.get?_cons, if_neg h]
    · simp only [List.filter, ne_eq, hk, not_false_eq_true, decide_true]
      rw [Memo.get?_cons, Memo.get?_cons, ih]

theorem Memo.get?_set (m : Memo Val) (k k' : Expr) (v : Val) :
    Memo.get? (m.set k v) k' = if k' = k then some v else Memo.get? m k' := by
  unfold Memo.set
  rw [Memo.get?_cons]
  by_cases h : k' = k
  · simp [h]
  · simp only [h, if_false]; exact Memo.get?_filter_ne m k k' h

/-- every cached entry is the value of the pure recursion for its key, under arguments `a` -/
def Sound (S : Spec Arg Val ε) (a : Arg) (m : Memo Val) : Prop :=
  ∀ k v, m.get? k = some v → pureWalk S a k = .ok v

/-- keys are never lost -/
def Ext (m m' : Memo Val) : Prop := ∀ k, (m.get? k).isSome → (m'.get? k).isSome

theorem Ext.refl (m : Memo Val) : Ext m m := fun _ h => h
theorem Ext.trans {m₁ m₂ m₃ : Memo Val} (h₁ : Ext m₁ m₂) (h₂ : Ext m₂ m₃) : Ext m₁ m₃ :=
  fun k h => h₂ k (h₁ k h)

theorem Sound.nil (S : Spec Arg Val ε) (a : Arg) : Sound S a ([] : Memo Val) := by
  intro k v h; simp [Memo.get?] at h

theorem Sound.cons {S : Spec Arg Val ε} {a : Arg} {m : Memo Val} (h : Sound S a m) {k : Expr} {v : Val}
    (hv : pureWalk S a k = .ok v) : Sound S a ((k, v) :: m) := by
  intro k' v' h'
  rw [Memo.get?_cons] at h'
  by_cases hk : k' = k
  · simp only [hk, if_true, Option.some.injEq] at h'; rw [hk, ← h']; exact hv
  · simp only [hk, if_false] at h'; exact h k' v' h'

theorem Sound.set {S : Spec Arg Val ε} {a : Arg} {m : Memo Val} (h : Sound S a m) {k : Expr} {v : Val}
    (hv : pureWalk S a k = .ok v) : Sound S a (m.set k v) := by
  intro k' v' h'
  rw [Memo.get?_set] at h'
  by_cases hk : k' = k
  · simp only [hk, if_true, Option.some.injEq] at h'; rw [hk, ← h']; exact hv
  · simp only [hk, if_false] at h'; exact h k' v' h'

theorem Ext.cons (m : Memo Val) (k : Expr) (v : Val) : Ext m ((k, v) :: m) := by
  intro k' h; rw [Memo.get?_cons]; by_cases hk : k' = k <;> simp [hk, h]

theorem Ext.set (m : Memo Val) (k : Expr) (v : Val) : Ext m (m.set k v) := by
  intro k' h; rw [Memo.get?_set]; by_cases hk : k' = k <;> simp [hk, h]

/-! ### the pure recursion -/

theorem size_eq (e : Expr) : e.size = 1 + Expr.sizeList (children e) := by
  cases e <;> simp [children, Expr.size, Expr.sizeList]

theorem pureWalk_eq (S : Spec Arg Val ε) (a : Arg) (e : Expr) :
    pureWalk S a e = nodeResult S a e (pureList S a (children e)) := by
  cases e with
  | leaf l => simp [pureWalk, children, pureList]
  | app op args => simp [pureWalk, children]
  | quant q vs b =>
    simp only [pureWalk, children, pureList]
    cases pureWalk S a b <;> rfl

theorem pureWalk_none_ok {S : Spec Arg Val ε} {a : Arg} {e : Expr} {vs : List Val}
    (hsp : S.special a e = none) (hl : pureList S a (children e) = .ok vs) :
    pureWalk S a e = S.fn a e vs := by
  rw [pureWalk_eq]; simp only [nodeResult, hsp, hl]

theorem pureWalk_none_error {S : Spec Arg Val ε} {a : Arg} {e : Expr} {x : ε}
    (hsp : S.special a e = none) (hl : pureList S a (children e) = .error x) :
    pureWalk S a e = .error x := by
  rw [pureWalk_eq]; simp only [nodeResult, hsp, hl]

/-! ### runs of the loop -/

/-- `k` iterations of the loop take `w` to `w'` without finishing -/
def Runs (S : Spec Arg Val ε) (a : Arg) (k : Nat) (w w' : Walker Val) : Prop :=
  ∀ fuel, processStack S a (fuel + k) w = processStack S a fuel w'

/-- within `k` iterations the loop started in `w` stops with outcome `r` -/
def Stops (S : Spec Arg Val ε) (a : Arg) (k : Nat) (w : Walker Val)
    (r : Except (Err ε) Unit × Walker Val) : Prop :=
  ∀ fuel, processStack S a (fuel + k) w = r

theorem Runs.refl (S : Spec Arg Val ε) (a : Arg) (w : Walker Val) : Runs S a 0 w w := fun _ => rfl

theorem Runs.trans {S : Spec Arg Val ε} {a : Arg} {k₁ k₂ : Nat} {w₁ w₂ w₃ : Walker Val}
    (h₁ : Runs S a k₁ w₁ w₂) (h₂ : Runs S a k₂ w₂ w₃) : Runs S a (k₁ + k₂) w₁ w₃ := by
  intro fuel
  have : fuel + (k₁ + k₂) = (fuel + k₂) + k₁ := by omega
  rw [this, h₁, h₂]

theorem Runs.stops {S : Spec Arg Val ε} {a : Arg} {k₁ k₂ : Nat} {w₁ w₂ : Walker Val} {r}
    (h₁ : Runs S a k₁ w₁ w₂) (h₂ : Stops S a k₂ w₂ r) : Stops S a (k₁ + k₂) w₁ r := by
  intro fuel
  have : fuel + (k₁ + k₂) = (fuel + k₂) + k₁ := by omega
  rw [this, h₁, h₂]

theorem processStack_nil (S : Spec Arg Val ε) (a : Arg) (fuel : Nat) (m : Memo Val) :
    processStack S a fuel { memo := m, stack := [] } = (.ok (), { memo := m, stack := [] }) := by
  unfold processStack; rfl

theorem processStack_true (S : Spec Arg Val ε) (a : Arg) (fuel : Nat) (m : Memo Val) (e : Expr) rest :
    processStack S a (fuel + 1) { memo := m, stack := (true, e) :: rest } =
      match compute S a m e with
      | .ok m' => processStack S a fuel { memo := m', stack := rest }
      | .error x => (.error x, { memo := m, stack := rest }) := by
  rw [processStack]; rfl

theorem processStack_false (S : Spec Arg Val ε) (a : Arg) (fuel : Nat) (m : Memo Val) (e : Expr) rest :
    processStack S a (fuel + 1) { memo := m, stack := (false, e) :: rest } =
      match expand S a m rest e with
      | .ok w' => processStack S a fuel w'
      | .error x => (.error x, { memo := m, stack := rest }) := by
  rw [processStack]; rfl

/-! ### the main invariant -/

/-- what processing a pending `(False, e)` entry does -/
def NodeOK (S : Spec Arg Val ε) (a : Arg) (e : Expr) : Prop :=
  ∀ (m : Memo Val) (rest : List (Bool × Expr)), Sound S a m →
    (∀ v, pureWalk S a e = .ok v →
      ∃ m' k, k ≤ 2 * e.size ∧ Runs S a k ⟨m, (false, e) :: rest⟩ ⟨m', rest⟩ ∧
        Sound S a m' ∧ Ext m m' ∧ (m'.get? e).isSome) ∧
    (∀ x, pureWalk S a e = .error x →
      ∃ m' rest' k, k ≤ 2 * e.size ∧
        Stops S a k ⟨m, (false, e) :: rest⟩ (.error (.node x), ⟨m', rest'⟩) ∧ Sound S a m')

/-- what processing the pushed children of a node does (`m₀` = the cache at push time) -/
def ListOK (S : Spec Arg Val ε) (a : Arg) (cs : List Expr) : Prop :=
  ∀ (m₀ m : Memo Val) (st : List (Bool × Expr)), Sound S a m → Ext m₀ m →
    (∀ vs, pureList S a cs = .ok vs →
      ∃ m' k, k ≤ 2 * Expr.sizeList cs ∧ Runs S a k ⟨m, pushChildren a m₀ st cs⟩ ⟨m', st⟩ ∧
        Sound S a m' ∧ Ext m m' ∧ ∀ c, c ∈ cs → (m'.get? c).isSome) ∧
    (∀ x, pureList S a cs = .error x →
      ∃ m' rest' k, k ≤ 2 * Expr.sizeList cs ∧
        Stops S a k ⟨m, pushChildren a m₀ st cs⟩ (.error (.node x), ⟨m', rest'⟩) ∧ Sound S a m')

theorem listOK_nil (S : Spec Arg Val ε) (a : Arg) : ListOK S a [] := by
  intro m₀ m st hs _
  constructor
  · intro vs _
    exact ⟨m, 0, Nat.zero_le _, Runs.refl S a _, hs, Ext.refl m, by intro c hc; cases hc⟩
  · intro x hx; simp [pureList] at hx

theorem listOK_cons {S : Spec Arg Val ε} {a : Arg} {c : Expr} {cs : List Expr}
    (hc : NodeOK S a c) (hcs : ListOK S a cs) : ListOK S a (c :: cs) := by
  intro m₀ m st hs hext
  -- the head child sits at the bottom: the tail is processed first
  by_cases hmem : (m₀.get? c).isSome
  · have hpush : pushChildren a m₀ st (c :: cs) = pushChildren a m₀ st cs := by
      simp [pushChildren, getKey, hmem]
    rw [hpush]
    obtain ⟨hok, herr⟩ := hcs m₀ m st hs hext
    -- a cached child has a value: it cannot fail
    obtain ⟨v₀, hv₀⟩ := Option.isSome_iff_exists.mp (hext c hmem)
    have hw₀ := hs c v₀ hv₀
    constructor
    · intro vs hvs
      simp only [pureList] at hvs
      cases hl : pureList S a cs with
      | error x => rw [hl] at hvs; simp at hvs
      | ok vs' =>
        obtain ⟨m₁, k₁, hk₁, hr₁, hs₁, he₁, hin₁⟩ := hok vs' hl
        refine ⟨m₁, k₁, ?_, hr₁, hs₁, he₁, ?_⟩
        · simp only [Expr.sizeList]; omega
        · intro c' hc'
          cases hc' with
          | head => exact he₁ c (hext c hmem)
          | tail _ h => exact hin₁ c' h
    · intro x hx
      simp only [pureList] at hx
      cases hl : pureList S a cs with
      | error y =>
        rw [hl] at hx
        have : y = x := by simpa using hx
        subst this
        obtain ⟨m₁, r₁, k₁, hk₁, hst₁, hs₁⟩ := herr y hl
        exact ⟨m₁, r₁, k₁, by simp only [Expr.sizeList]; omega, hst₁, hs₁⟩
      | ok vs' =>
        rw [hl, hw₀] at hx; simp at hx
  · have hpush : pushChildren a m₀ st (c :: cs) = pushChildren a m₀ ((false, c) :: st) cs := by
      simp [pushChildren, getKey, hmem]
    rw [hpush]
    obtain ⟨hok, herr⟩ := hcs m₀ m ((false, c) :: st) hs hext
    constructor
    · intro vs hvs
      simp only [pureList] at hvs
      cases hl : pureList S a cs with
      | error x => rw [hl] at hvs; simp at hvs
      | ok vs' =>
        rw [hl] at hvs
        cases hw : pureWalk S a c with
        | error x => rw [hw] at hvs; simp at hvs
        | ok v =>
          obtain ⟨m₁, k₁, hk₁, hr₁, hs₁, he₁, hin₁⟩ := hok vs' hl
          obtain ⟨m₂, k₂, hk₂, hr₂, hs₂, he₂, hin₂⟩ := (hc m₁ st hs₁).1 v hw
          refine ⟨m₂, k₁ + k₂, ?_, hr₁.trans hr₂, hs₂, he₁.trans he₂, ?_⟩
          · simp only [Expr.sizeList]; omega
          · intro c' hc'
            cases hc' with
            | head => exact hin₂
            | tail _ h => exact he₂ c' (hin₁ c' h)
    · intro x hx
      simp only [pureList] at hx
      cases hl : pureList S a cs with
      | error y =>
        rw [hl] at hx
        have : y = x := by simpa using hx
        subst this
        obtain ⟨m₁, r₁, k₁, hk₁, hst₁, hs₁⟩ := herr y hl
        exact ⟨m₁, r₁, k₁, by simp only [Expr.sizeList]; omega, hst₁, hs₁⟩
      | ok vs' =>
        rw [hl] at hx
        cases hw : pureWalk S a c with
        | ok v => rw [hw] at hx; simp at hx
        | error y =>
          rw [hw] at hx
          have : y = x := by simpa using hx
          subst this
          obtain ⟨m₁, k₁, hk₁, hr₁, hs₁, he₁, _⟩ := hok vs' hl
          obtain ⟨m₂, r₂, k₂, hk₂, hst₂, hs₂⟩ := (hc m₁ st hs₁).2 y hw
          exact ⟨m₂, r₂, k₁ + k₂, by simp only [Expr.sizeList]; omega, hr₁.stops hst₂, hs₂⟩

/-- cached children are read back as the values of the pure recursion -/
theorem lookupAll_sound {S : Spec Arg Val ε} {a : Arg} {m : Memo Val} (hs : Sound S a m) :
    ∀ (cs : List Expr) (vs : List Val), pureList S a cs = .ok vs → (∀ c, c ∈ cs → (m.get? c).isSome) →
      lookupAll (ε := ε) a m cs = .ok vs
  | [], vs, h, _ => by simp [pureList] at h; simp [lookupAll, h]
  | c :: cs, vs, h, hin => by
    simp only [pureList] at h
    cases hl : pureList S a cs with
    | error x => rw [hl] at h; simp at h
    | ok vs' =>
      rw [hl] at h
      cases hw : pureWalk S a c with
      | error x => rw [hw] at h; simp at h
      | ok v =>
        rw [hw] at h
        have hvs : vs = v :: vs' := by simpa using h.symm
        obtain ⟨v', hv'⟩ := Option.isSome_iff_exists.mp (hin c (List.mem_cons_self))
        have : v' = v := by
          have := hs c v' hv'; rw [hw] at this; simpa using this.symm
        subst this
        have ih := lookupAll_sound hs cs vs' hl (fun c' hc' => hin c' (List.mem_cons_of_mem _ hc'))
        simp only [lookupAll, getKey, hv', ih, hvs]

theorem nodeOK_of_listOK {S : Spec Arg Val ε} {a : Arg} {e : Expr}
    (hcs : ListOK S a (children e)) : NodeOK S a e := by
  intro m rest hs
  have hsize := size_eq e
  cases hsp : S.special a e with
  | some r =>
    -- computed on the spot by the overriding `_push_with_children_to_stack`
    have hpw : pureWalk S a e = r := by rw [pureWalk_eq]; simp only [nodeResult, hsp]
    constructor
    · intro v hv
      rw [hpw] at hv
      refine ⟨m.set e v, 1, by omega, ?_, hs.set (by rw [hpw, hv]), Ext.set m e v, ?_⟩
      · intro fuel
        rw [processStack_false, expand, hsp, hv]; rfl
      · rw [Memo.get?_set]; simp
    · intro x hx
      rw [hpw] at hx
      refine ⟨m, rest, 1, by omega, ?_, hs⟩
      intro fuel
      rw [processStack_false, expand, hsp, hx]
  | none =>
    have hexp : Runs S a 1 ⟨m, (false, e) :: rest⟩
        ⟨m, pushChildren a m ((true, e) :: rest) (children e)⟩ := by
      intro fuel
      rw [processStack_false, expand, hsp]
    obtain ⟨hok, herr⟩ := hcs m m ((true, e) :: rest) hs (Ext.refl m)
    constructor
    · intro v hv
      cases hl : pureList S a (children e) with
      | error x => rw [pureWalk_none_error hsp hl] at hv; cases hv
      | ok vs =>
        rw [pureWalk_none_ok hsp hl] at hv
        obtain ⟨m₁, k₁, hk₁, hr₁, hs₁, he₁, hin₁⟩ := hok vs hl
        by_cases hmem : (m₁.get? e).isSome
        · refine ⟨m₁, 1 + k₁ + 1, by omega, (hexp.trans hr₁).trans ?_, hs₁, he₁, hmem⟩
          intro fuel
          rw [processStack_true, compute, getKey, if_pos hmem]
        · refine ⟨(e, v) :: m₁, 1 + k₁ + 1, by omega, (hexp.trans hr₁).trans ?_,
            hs₁.cons (by rw [pureWalk_none_ok hsp hl]; exact hv), he₁.trans (Ext.cons m₁ e v), ?_⟩
          · intro fuel
            rw [processStack_true, compute, getKey, if_neg hmem, lookupAll_sound hs₁ _ vs hl hin₁]
            simp only [hv]
          · rw [Memo.get?_cons]; simp
    · intro x hx
      cases hl : pureList S a (children e) with
      | error y =>
        rw [pureWalk_none_error hsp hl] at hx
        have : y = x := by simpa using hx
        subst this
        obtain ⟨m₁, r₁, k₁, hk₁, hst₁, hs₁⟩ := herr y hl
        exact ⟨m₁, r₁, 1 + k₁, by omega, hexp.stops hst₁, hs₁⟩
      | ok vs =>
        rw [pureWalk_none_ok hsp hl] at hx
        obtain ⟨m₁, k₁, hk₁, hr₁, hs₁, he₁, hin₁⟩ := hok vs hl
        by_cases hmem : (m₁.get? e).isSome
        · -- a cached node has a value: it cannot fail
          obtain ⟨v, hv⟩ := Option.isSome_iff_exists.mp hmem
          have := hs₁ e v hv
          rw [pureWalk_none_ok hsp hl, hx] at this; cases this
        · refine ⟨m₁, rest, 1 + k₁ + 1, by omega, (hexp.trans hr₁).stops ?_, hs₁⟩
          intro fuel
          rw [processStack_true, compute, getKey, if_neg hmem, lookupAll_sound hs₁ _ vs hl hin₁]
          simp only [hx]

mutual
theorem nodeOK (S : Spec Arg Val ε) (a : Arg) : ∀ e, NodeOK S a e
  | .leaf l => nodeOK_of_listOK (e := .leaf l) (listOK_nil S a)
  | .app op args => nodeOK_of_listOK (e := .app op args) (listOK_all S a args)
  | .quant q vs b => nodeOK_of_listOK (e := .quant q vs b) (listOK_cons (nodeOK S a b) (listOK_nil S a))
theorem listOK_all (S : Spec Arg Val ε) (a : Arg) : ∀ cs, ListOK S a cs
  | [] => listOK_nil S a
  | c :: cs => listOK_cons (nodeOK S a c) (listOK_all S a cs)
end

/-! ### one call of `iter_walk` / `walk` on a walker with an empty stack -/

theorem keepBottom_zero (st : List (Bool × Expr)) : keepBottom 0 st = [] := by
  simp [keepBottom]

/-- `iter_walk` from an empty stack and a sound cache: the pure value, an empty stack and a sound
    cache — or the pure exception and a sound cache; `fuelFor e` pops are enough either way -/
theorem iterWalk_spec (S : Spec Arg Val ε) (a : Arg) (m : Memo Val) (e : Expr) (hs : Sound S a m) :
    ∃ w', iterWalk S a (fuelFor e) ⟨m, []⟩ e = (liftPure (pureWalk S a e), w') ∧ Sound S a w'.memo ∧
      (∀ v, pureWalk S a e = .ok v → w'.stack = []) := by
  obtain ⟨hok, herr⟩ := nodeOK S a e m [] hs
  cases hp : pureWalk S a e with
  | ok v =>
    obtain ⟨m', k, hk, hr, hs', _, hin⟩ := hok v hp
    obtain ⟨v', hv'⟩ := Option.isSome_iff_exists.mp hin
    have hvv : v' = v := by
      have := hs' e v' hv'; rw [hp] at this; simpa using this.symm
    subst hvv
    refine ⟨⟨m', []⟩, ?_, hs', fun _ _ => rfl⟩
    have hfuel : fuelFor e = (fuelFor e - k) + k := by unfold fuelFor; omega
    unfold iterWalk
    rw [hfuel, hr, processStack_nil]
    simp only [getKey, hv', liftPure]
  | error x =>
    obtain ⟨m', rest', k, hk, hst, hs'⟩ := herr x hp
    refine ⟨⟨m', rest'⟩, ?_, hs', fun v hv => by cases hv⟩
    have hfuel : fuelFor e = (fuelFor e - k) + k := by unfold fuelFor; omega
    unfold iterWalk
    rw [hfuel, hst]
    simp only [liftPure]

/-! ### the invariant between calls -/

/-- the state every call must find and leave: empty stack; cache empty (one-time caches) or sound
    whatever the keyword arguments of the next call will be -/
def Clean (S : Spec Arg Val ε) (w : Walker Val) : Prop :=
  w.stack = [] ∧ (if S.invalidate then w.memo = [] else ∀ a, Sound S a w.memo)

/-- a walker that keeps its cache across calls must not depend on keyword arguments (dag.py's own
    `_get_key` refuses them) -/
def ArgIndep (S : Spec Arg Val ε) : Prop :=
  S.invalidate = false → ∀ a a' e, pureWalk S a e = pureWalk S a' e

theorem Clean.fresh (S : Spec Arg Val ε) : Clean S Walker.fresh := by
  refine ⟨rfl, ?_⟩
  cases S.invalidate
  · simp only [Bool.false_eq_true, if_false]; intro a; exact Sound.nil S a
  · simp [Walker.fresh]

theorem Clean.sound {S : Spec Arg Val ε} {w : Walker Val} (h : Clean S w) (a : Arg) : Sound S a w.memo := by
  obtain ⟨_, hm⟩ := h
  cases hi : S.invalidate
  · simp only [hi, Bool.false_eq_true, if_false] at hm; exact hm a
  · simp only [hi, if_true] at hm; rw [hm]; exact Sound.nil S a

theorem Sound.argIndep {S : Spec Arg Val ε} (hS : ArgIndep S) (hi : S.invalidate = false)
    {a : Arg} {m : Memo Val} (h : Sound S a m) (a' : Arg) : Sound S a' m := by
  intro k v hk; rw [hS hi a' a k]; exact h k v hk

/-- one call of the repaired `walk` on a clean walker -/
theorem walk_spec (S : Spec Arg Val ε) (hS : ArgIndep S) (a : Arg) (w : Walker Val) (e : Expr)
    (hw : Clean S w) :
    (walk S a w e).1 = liftPure (pureWalk S a e) ∧ Clean S (walk S a w e).2 := by
  have hs := hw.sound a
  obtain ⟨hst, hm⟩ := hw
  unfold walk
  cases hg : w.memo.get? e with
  | some v =>
    simp only
    refine ⟨?_, hst, hm⟩
    rw [hs e v hg]; rfl
  | none =>
    simp only
    obtain ⟨w', hiw, hs', _⟩ := iterWalk_spec S a w.memo e hs
    have hw_eq : w = ⟨w.memo, []⟩ := by cases w; simp at hst; simp [hst]
    rw [hw_eq, hiw]
    refine ⟨rfl, ?_, ?_⟩
    · simp [finish, keepBottom_zero]
    · cases hi : S.invalidate
      · simp only [finish, hi, Bool.false_eq_true, if_false]
        intro a'; exact hs'.argIndep hS hi a'
      · simp [finish, hi]

/-- any history of calls on one clean walker answers each call with its pure value -/
theorem runHistory_spec (S : Spec Arg Val ε) (hS : ArgIndep S) :
    ∀ (h : List (Arg × Expr)) (w : Walker Val), Clean S w →
      (runHistory (walk S) w h).1 = h.map (fun c => liftPure (pureWalk S c.1 c.2)) ∧
      Clean S (runHistory (walk S) w h).2
  | [], w, hw => ⟨rfl, hw⟩
  | (a, e) :: h, w, hw => by
    obtain ⟨h1, h2⟩ := walk_spec S hS a w e hw
    obtain ⟨ih1, ih2⟩ := runHistory_spec S hS h _ h2
    simp only [runHistory, List.map]
    exact ⟨by rw [h1, ih1], ih2⟩

/-! ### instances -/

theorem argIndep_of_invalidate {S : Spec Arg Val ε} (h : S.invalidate = true) : ArgIndep S := by
  intro h'; rw [h] at h'; cases h'

theorem argIndep_unit (S : Spec Unit Val ε) : ArgIndep S := by
  intro _ a a' e; cases a; cases a'; rfl

theorem substSpec_special_key {reject : Expr → Bool} {σ : Expr.Subst} {e : Expr} {v : Expr}
    (h : σ.lookup e = some v) : (substSpec reject).special σ e = some (.ok v) := by
  simp only [substSpec, h]

mutual
theorem substSpec_pure (reject : Expr → Bool) (σ : Expr.Subst) :
    ∀ e, pureWalk (substSpec reject) σ e = substE reject σ e
  | .leaf l => by
    rw [pureWalk, substE, nodeResult.eq_def]
    cases h : σ.lookup (.leaf l) with
    | some v => simp only [substSpec, h]
    | none => simp only [substSpec, h]
  | .app op args => by
    rw [pureWalk, substE, substSpec_pureList reject σ args, nodeResult.eq_def]
    cases h : σ.lookup (.app op args) with
    | some v => simp only [substSpec, h]
    | none =>
      simp only [substSpec, h]
      cases substListE reject σ args <;> rfl
  | .quant q vs b => by
    rw [pureWalk, substE, nodeResult.eq_def]
    cases h : σ.lookup (.quant q vs b) with
    | some v => simp only [substSpec, h]
    | none => simp only [substSpec, h]
theorem substSpec_pureList (reject : Expr → Bool) (σ : Expr.Subst) :
    ∀ es, pureList (substSpec reject) σ es = substListE reject σ es
  | [] => by rw [pureList, substListE]
  | e :: es => by
    rw [pureList, substListE, substSpec_pure reject σ e, substSpec_pureList reject σ es]
    cases substListE reject σ es with
    | error x => rfl
    | ok vs => cases substE reject σ e <;> rfl
end

mutual
theorem freeVarsSpec_pure : ∀ e, pureWalk freeVarsSpec () e = .ok (Expr.freeVars e)
  | .leaf l => by cases l <;> rfl
  | .app op args => by
    obtain ⟨vs, h1, h2⟩ := freeVarsSpec_pureList args
    rw [pureWalk, h1, Expr.freeVars, ← h2]; rfl
  | .quant q vs b => by
    rw [pureWalk, freeVarsSpec_pure b, Expr.freeVars]
    simp [nodeResult, freeVarsSpec, freeVarsFn]
theorem freeVarsSpec_pureList :
    ∀ es, ∃ vs, pureList freeVarsSpec () es = .ok vs ∧ vs.flatten = Expr.freeVarsList es
  | [] => ⟨[], by rw [pureList], by simp [Expr.freeVarsList]⟩
  | e :: es => by
    obtain ⟨vs, h1, h2⟩ := freeVarsSpec_pureList es
    refine ⟨Expr.freeVars e :: vs, ?_, ?_⟩
    · rw [pureList, h1, freeVarsSpec_pure e]
    · simp [Expr.freeVarsList, h2]
end

mutual
theorem fluentsSpec_pure : ∀ e, pureWalk fluentsSpec () e = .ok (Expr.fluentExps e)
  | .leaf l => by rfl
  | .app op args => by
    obtain ⟨vs, h1, h2⟩ := fluentsSpec_pureList args
    rw [pureWalk, h1]
    cases op <;> simp [nodeResult, fluentsSpec, fluentsFn, Expr.fluentExps, h2]
  | .quant q vs b => by
    rw [pureWalk, fluentsSpec_pure b, Expr.fluentExps]
    simp [nodeResult, fluentsSpec, fluentsFn]
theorem fluentsSpec_pureList :
    ∀ es, ∃ vs, pureList fluentsSpec () es = .ok vs ∧ vs.flatten = Expr.fluentExpsList es
  | [] => ⟨[], by rw [pureList], by simp [Expr.fluentExpsList]⟩
  | e :: es => by
    obtain ⟨vs, h1, h2⟩ := fluentsSpec_pureList es
    refine ⟨Expr.fluentExps e :: vs, ?_, ?_⟩
    · rw [pureList, h1, fluentsSpec_pure e]
    · simp [Expr.fluentExpsList, h2]
end

/-! ### the environment -/

/-- every shared walker of the environment is clean -/
def EnvClean (reject : Expr → Bool) (E : Env) : Prop :=
  Clean (substSpec reject) E.sub ∧ Clean freeVarsSpec E.fv ∧ Clean fluentsSpec E.fl

theorem EnvClean.fresh (reject : Expr → Bool) : EnvClean reject Env.fresh :=
  ⟨Clean.fresh _, Clean.fresh _, Clean.fresh _⟩

theorem envCall_spec (reject : Expr → Bool) (E : Env) (c : Call) (hE : EnvClean reject E) :
    (E.call reject c).1 = pureCall reject c ∧ EnvClean reject (E.call reject c).2 := by
  obtain ⟨h1, h2, h3⟩ := hE
  cases c with
  | subst σ e =>
    simp only [Env.call, pureCall]
    by_cases hemp : σ.isEmpty = true
    · rw [if_pos hemp, if_pos hemp]; exact ⟨rfl, h1, h2, h3⟩
    · rw [if_neg hemp, if_neg hemp]
      by_cases hall : (σ.all fun kvc => kvc.2.2) = true
      · rw [if_pos hall, if_pos hall]
        obtain ⟨r1, r2⟩ := walk_spec (substSpec reject) (argIndep_of_invalidate rfl)
          (σ.map fun kvc => (kvc.1, kvc.2.1)) E.sub e h1
        refine ⟨?_, r2, h2, h3⟩
        show ansOfSub _ = _
        rw [r1, substSpec_pure]
      · rw [if_neg hall, if_neg hall]; exact ⟨rfl, h1, h2, h3⟩
  | freeVars e =>
    simp only [Env.call, pureCall]
    obtain ⟨r1, r2⟩ := walk_spec freeVarsSpec (argIndep_unit _) () E.fv e h2
    refine ⟨?_, h1, r2, h3⟩
    rw [r1, freeVarsSpec_pure]; rfl
  | fluents e =>
    simp only [Env.call, pureCall]
    obtain ⟨r1, r2⟩ := walk_spec fluentsSpec (argIndep_unit _) () E.fl e h3
    refine ⟨?_, h1, h2, r2⟩
    rw [r1, fluentsSpec_pure]; rfl

theorem envRun_spec (reject : Expr → Bool) :
    ∀ (h : List Call) (E : Env), EnvClean reject E →
      (Env.run reject E h).1 = h.map (pureCall reject) ∧ EnvClean reject (Env.run reject E h).2
  | [], E, hE => ⟨rfl, hE⟩
  | c :: h, E, hE => by
    obtain ⟨h1, h2⟩ := envCall_spec reject E c hE
    obtain ⟨ih1, ih2⟩ := envRun_spec reject h _ h2
    simp only [Env.run, List.map]
    exact ⟨by rw [h1, ih1], ih2⟩

/-! ### `create_node` -/

/-- every registered node passed the type check -/
def TableOK {ε : Type} (check : Expr → Except ε Unit) (M : Manager) : Prop :=
  ∀ c, c ∈ M.table → check c = .ok ()

theorem create_spec {ε : Type} (check : Expr → Except ε Unit) (M : Manager) (c : Expr)
    (hM : TableOK check M) :
    (create check M c).1 = (match check c with | .ok () => .ok c | .error x => .error x) ∧
      TableOK check (create check M c).2 := by
  unfold create
  by_cases hc : M.table.contains c = true
  · simp only [hc, if_true]
    have := hM c (by simpa using hc)
    exact ⟨by rw [this], hM⟩
  · simp only [hc]
    cases hk : check c with
    | ok u =>
      cases u
      refine ⟨rfl, ?_⟩
      intro c' hc'
      have hc'' : c' = c ∨ c' ∈ M.table := by simpa using hc'
      rcases hc'' with h | h
      · rw [h]; exact hk
      · exact hM c' h
    | error x => exact ⟨rfl, hM⟩

theorem createHistory_spec {ε : Type} (check : Expr → Except ε Unit) :
    ∀ (cs : List Expr) (M : Manager), TableOK check M →
      (createHistory (create check) M cs).1 =
        cs.map (fun c => match check c with | .ok () => .ok c | .error x => .error x) ∧
      TableOK check (createHistory (create check) M cs).2
  | [], M, hM => ⟨rfl, hM⟩
  | c :: cs, M, hM => by
    obtain ⟨h1, h2⟩ := create_spec check M c hM
    obtain ⟨ih1, ih2⟩ := createHistory_spec check cs _ h2
    simp only [createHistory, List.map]
    exact ⟨by rw [h1, ih1], ih2⟩

end UPVerif.Dag
