import UPVerif.Core.Compile.DCR
import UPVerif.Lemmas.CompileCERSim
import UPVerif.Lemmas.CompileSIR
/-!
`DisjunctiveConditionsRemover`: the split of an action into one variant per disjunct of the DNF of its
preconditions, as a forward and a backward simulation — for problems whose goal DNF is not a disjunction (no
goal action is added) and whose conditional effects are not split (finding D-C06b excluded).

The DNF walker is a parameter with the hypothesis C12 proves about the real one (on interpretations where the
expression is defined): an expression is TRUE exactly when one of the disjuncts of its DNF is.
-/
namespace UPVerif.Compile
open UPVerif UPVerif.Expr UPVerif.Sim UPVerif.Spec UPVerif.Simulation

/-- truth of an expression = truth of one disjunct of its DNF -/
def DnfSplits (dnfE : Expr → Expr) : Prop :=
  ∀ (c : EvalCtx) (e : Expr),
    Spec.isTrue (eval c [] e) = (disjuncts (dnfE e)).any (fun d => Spec.isTrue (eval c [] d))

/-- hypotheses of the DisjunctiveConditionsRemover theorems -/
structure DcrOK (simp dnfE : Expr → Expr) (W : World) : Prop where
  hsimp : SimpExact simp
  hdnf : DnfSplits dnfE
  /-- conditional effects: not forall effects, constant targets, and their condition is rewritten into ONE
      condition (no split) that evaluates like the original one -/
  effs : ∀ a ∈ W.P.actions, ∀ e ∈ a.effs, e.isConditional = true →
    simpleCond e = true ∧ (∀ args, simp (dnfE e.cond) ≠ .app .or args) ∧
    (∀ c : EvalCtx, eval c [] (simp (dnfE e.cond)) = eval c [] e.cond)
  /-- the goal needs no goal action -/
  goal : ∀ args, dnfE (mkAnd W.P.goals) ≠ .app .or args

theorem isTrue_of_isTrueExpr {c : EvalCtx} {e : Expr} (h : e.isTrue = true) : eval c [] e = .ok (.b true) := by
  cases e with
  | leaf l =>
    cases l with
    | boolC b => cases b with
      | true => rfl
      | false => simp [Expr.isTrue] at h
    | _ => simp [Expr.isTrue] at h
  | app op as => simp [Expr.isTrue] at h
  | quant q vs b => simp [Expr.isTrue] at h

theorem eval_of_isFalse {c : EvalCtx} {e : Expr} (h : e.isFalse = true) : eval c [] e = .ok (.b false) := by
  cases e with
  | leaf l =>
    cases l with
    | boolC b => cases b with
      | false => rfl
      | true => simp [Expr.isFalse] at h
    | _ => simp [Expr.isFalse] at h
  | app op as => simp [Expr.isFalse] at h
  | quant q vs b => simp [Expr.isFalse] at h

/-- an effect whose condition is replaced by one that evaluates alike fires alike -/
theorem evalEff_cond_congr {c : EvalCtx} {e : Effect} {nc : Expr} (hc : e.isConditional = true)
    (h : eval c [] nc = eval c [] e.cond) : evalEff c { e with cond := nc } = evalEff c e := by
  obtain ⟨fl, v, cnd, k, fa⟩ := e
  simp only at h
  unfold evalEff
  cases fl with
  | leaf l => rfl
  | quant q vs b => rfl
  | app op args =>
    cases op <;> try rfl
    rename_i f
    dsimp only
    cases evalArgs c args with
    | error x => rfl
    | ok vs =>
      dsimp only
      simp only [hc, if_true]
      by_cases hn : (⟨.app (.fluent f) args, v, nc, k, fa⟩ : Effect).isConditional = true
      · simp only [hn, if_true, h]
      · have hn' : (⟨.app (.fluent f) args, v, nc, k, fa⟩ : Effect).isConditional = false := by simpa using hn
        have hnt : nc.isTrue = true := by
          unfold Effect.isConditional at hn'
          simpa using hn'
        have := isTrue_of_isTrueExpr (c := c) hnt
        rw [this] at h
        simp only [hn', Bool.false_eq_true, if_false, ← h]
        rfl

/-- the effect rewriting of `_create_new_action_with_given_precond` does not change what fires -/
theorem dcrEffects_fired {simp dnfE : Expr → Expr} (P : Problem) (c : EvalCtx) : ∀ (effs : List Effect),
    (∀ e ∈ effs, e.isConditional = true → simpleCond e = true ∧ (∀ args, simp (dnfE e.cond) ≠ .app .or args) ∧
      (∀ c : EvalCtx, eval c [] (simp (dnfE e.cond)) = eval c [] e.cond)) →
    fired c (expandEffs P (dcrEffects simp dnfE effs)) = fired c (expandEffs P effs)
  | [], _ => rfl
  | e :: es, h => by
    have ih := dcrEffects_fired (simp := simp) (dnfE := dnfE) P c es (fun x hx => h x (List.mem_cons_of_mem _ hx))
    have he := h e (List.mem_cons_self ..)
    have hsplit : dcrEffects simp dnfE (e :: es) =
        (if e.isConditional then
          (match simp (dnfE e.cond) with
            | .app .or args => args.map (fun a => { e with cond := a })
            | nc => if nc.isFalse then [] else [{ e with cond := nc }])
         else [e]) ++ dcrEffects simp dnfE es := rfl
    rw [hsplit, expandEffs_append, show e :: es = [e] ++ es from rfl, expandEffs_append]
    rw [fired_eq, fired_eq] at ih ⊢
    rw [List.all_append, List.all_append, List.filterMap_append, List.filterMap_append]
    by_cases hc : e.isConditional = true
    · obtain ⟨hs, hno, hex⟩ := he hc
      have hfa : e.forall_ = [] := by
        unfold simpleCond at hs
        rw [Bool.and_eq_true] at hs
        simpa using hs.1
      simp only [hc, if_true]
      have hone : expandEffs P [e] = [e] := expandEffs_simple P [e] (by intro x hx; simp at hx; rw [hx]; exact hfa)
      rw [hone]
      generalize hnc : simp (dnfE e.cond) = nc at hno hex
      by_cases hf : nc.isFalse = true
      · simp only [hf, if_true]
        have hev : eval c [] e.cond = .ok (.b false) := by rw [← hex c]; exact eval_of_isFalse hf
        have hnone := evalEff_cond_false hc hs hev
        have e1 : effOk c e = true := by unfold effOk; rw [hnone]
        have e2 : effSel c e = none := by unfold effSel; rw [hnone]
        simp only [expandEffs, List.flatMap_nil, List.all_nil, List.filterMap_nil, List.all_cons, e1, Bool.true_and,
          List.filterMap_cons, e2, List.nil_append]
        exact ih
      · have hf' : nc.isFalse = false := by simpa using hf
        simp only [hf', Bool.false_eq_true, if_false]
        have hone' : expandEffs P [({ e with cond := nc } : Effect)] = [{ e with cond := nc }] :=
          expandEffs_simple P _ (by intro x hx; simp at hx; rw [hx]; exact hfa)
        rw [hone']
        have hcong := evalEff_cond_congr (c := c) (nc := nc) hc (hex c)
        have e1 : effOk c { e with cond := nc } = effOk c e := by unfold effOk; rw [hcong]
        have e2 : effSel c { e with cond := nc } = effSel c e := by unfold effSel; rw [hcong]
        simp only [List.all_cons, List.all_nil, Bool.and_true, List.filterMap_cons, List.filterMap_nil, e1, e2]
        have h1 : (expandEffs P (dcrEffects simp dnfE es)).all (effOk c) = (expandEffs P es).all (effOk c) := by
          cases hA : (expandEffs P (dcrEffects simp dnfE es)).all (effOk c) <;>
            cases hB : (expandEffs P es).all (effOk c) <;> simp [hA, hB] at ih <;> rfl
        rw [h1]
        cases hB : (expandEffs P es).all (effOk c) with
        | false => simp
        | true =>
          rw [h1, hB] at ih
          simp only [if_true, Option.some.injEq] at ih
          simp only [Bool.and_true]
          cases effOk c e with
          | false => simp
          | true => simp only [if_true]; rw [ih]
    · have hc' : e.isConditional = false := by simpa using hc
      simp only [hc', Bool.false_eq_true, if_false]
      have h1 : (expandEffs P (dcrEffects simp dnfE es)).all (effOk c) = (expandEffs P es).all (effOk c) := by
        cases hA : (expandEffs P (dcrEffects simp dnfE es)).all (effOk c) <;>
          cases hB : (expandEffs P es).all (effOk c) <;> simp [hA, hB] at ih <;> rfl
      rw [h1]
      cases hB : (expandEffs P es).all (effOk c) with
      | false => simp
      | true =>
        rw [h1, hB] at ih
        simp only [if_true, Option.some.injEq] at ih
        simp only [Bool.and_true]
        cases (expandEffs P [e]).all (effOk c) with
        | false => simp
        | true => simp only [if_true]; rw [ih]

/-- unpacking one variant of `_create_new_action_with_given_precond` -/
theorem dcrNewAction_some {simp dnfE : Expr → Expr} {d : Expr} {a a' : Action}
    (h : dcrNewAction simp dnfE d a = some (some a')) :
    (simp d).isFalse = false ∧
    a' = { a with pre := (splitAnd (simp d)).foldl addPre [], effs := dcrEffects simp dnfE a.effs } := by
  unfold dcrNewAction at h
  dsimp only at h
  split at h
  · cases h
  · rename_i hf
    split at h
    · cases h
    · split at h
      · cases h
      · simp only [Option.some.injEq] at h
        exact ⟨by simpa using hf, h.symm⟩

/-- one variant step: the disjunct's truth replaces the original preconditions, the effects fire alike -/
theorem dcr_step_iff {simp dnfE : Expr → Expr} (W : World) (hok : DcrOK simp dnfE W) {a a' : Action} {d : Expr}
    (ha : a ∈ W.P.actions) (hv : dcrNewAction simp dnfE d a = some (some a')) (g : St) :
    stepAct W g a' = succOf W g [d] (expandEffs W.P a.effs) ∨ a.params.isEmpty = false ∧ stepAct W g a' = none := by
  obtain ⟨_, rfl⟩ := dcrNewAction_some hv
  unfold stepAct
  dsimp only
  by_cases hp : a.params.isEmpty = true
  · left
    simp only [hp, if_true]
    apply succOf_congr
    · rw [preOK_foldl_addPre, preOK_splitAnd, hok.hsimp]
      simp [preOK]
    · exact dcrEffects_fired W.P (ctxOf W g) a.effs (hok.effs a ha)
  · right
    have : a.params.isEmpty = false := by simpa using hp
    simp [this]

theorem preOK_singleton (c : EvalCtx) (d : Expr) : preOK c [d] = Spec.isTrue (eval c [] d) := by
  simp [preOK]

/-- what `dcrCompile` returns when the goal needs no goal action -/
theorem dcrCompile_some {simp dnfE : Expr → Expr} {P : Problem} {c : Compiled}
    (hg : ∀ args, dnfE (mkAnd P.goals) ≠ .app .or args) (h : dcrCompile simp dnfE P = some c) :
    (∃ acts, c.prob = { P with actions := acts, goals := addGoal [] (dnfE (mkAnd P.goals)) }) ∧
    (∀ (i : Nat) (a' : Action), c.prob.actions[i]? = some a' → ∃ (j : Nat) (a : Action) (d : Expr),
        backOf c i = some j ∧ P.actions[j]? = some a ∧ d ∈ disjuncts (dnfE (mkAnd a.pre)) ∧
        dcrNewAction simp dnfE d a = some (some a')) ∧
    (∀ (j : Nat) (a a' : Action) (d : Expr), P.actions[j]? = some a → d ∈ disjuncts (dnfE (mkAnd a.pre)) →
        dcrNewAction simp dnfE d a = some (some a') → ∃ i : Nat, c.prob.actions[i]? = some a' ∧ backOf c i = some j) ∧
    (∀ (a : Action) (d : Expr), a ∈ P.actions → d ∈ disjuncts (dnfE (mkAnd a.pre)) →
        dcrNewAction simp dnfE d a ≠ none) := by
  unfold dcrCompile at h
  dsimp only at h
  split at h
  · cases h
  rename_i hraise
  split at h
  · rename_i args hor
    exact absurd hor (hg args)
  rename_i ng hng
  cases h
  refine ⟨⟨_, rfl⟩, ?_, ?_, ?_⟩
  · intro i a' hi
    dsimp only at hi
    obtain ⟨b, hb, hback⟩ := getElem?_pairs hi
    have hmem := List.mem_of_getElem? hb
    rw [List.mem_filterMap] at hmem
    obtain ⟨⟨r, j⟩, hrj, hr⟩ := hmem
    rw [List.mem_flatMap] at hrj
    obtain ⟨⟨j', a⟩, hja, hra⟩ := hrj
    rw [List.mem_map] at hra
    obtain ⟨r', hr', hre⟩ := hra
    simp only [Prod.mk.injEq] at hre
    unfold dcrActions at hr'
    rw [List.mem_map] at hr'
    obtain ⟨d, hd, hdr⟩ := hr'
    cases hj : r.join with
    | none => rw [hj] at hr; simp at hr
    | some ar =>
      rw [hj] at hr
      simp only [Option.map_some, Option.some.injEq, Prod.mk.injEq] at hr
      refine ⟨j', a, d, ?_, mem_zip_range0 _ _ _ hja, hd, ?_⟩
      · unfold backOf; dsimp only; rw [hback, ← hr.2, hre.2]
      · rw [hdr, hre.1]
        cases r with
        | none => simp at hj
        | some r2 =>
          cases r2 with
          | none => simp at hj
          | some a2 => simp at hj; rw [hj, hr.1]
  · intro j a a' d hj hd hv
    have hz := zip_range_mem0 _ _ _ hj
    have : (a', some j) ∈ ((((List.range P.actions.length).zip P.actions).flatMap
        (fun ia => (dcrActions simp dnfE ia.2).map (fun r => (r, ia.1)))).filterMap
          (fun r => r.1.join.map (fun a => (a, some r.2)))) := by
      rw [List.mem_filterMap]
      refine ⟨(some (some a'), j), ?_, rfl⟩
      rw [List.mem_flatMap]
      refine ⟨(j, a), hz, ?_⟩
      rw [List.mem_map]
      refine ⟨some (some a'), ?_, rfl⟩
      unfold dcrActions
      rw [List.mem_map]
      exact ⟨d, hd, hv⟩
    obtain ⟨i, h1, h2⟩ := pairs_of_mem this
    exact ⟨i, h1, h2⟩
  · intro a d ha hd hnone
    apply hraise
    rw [List.any_eq_true]
    obtain ⟨j, hj, hje⟩ := List.getElem_of_mem ha
    have hj' : P.actions[j]? = some a := by rw [List.getElem?_eq_getElem hj, hje]
    have hz := zip_range_mem0 _ _ _ hj'
    refine ⟨(none, j), ?_, rfl⟩
    rw [List.mem_flatMap]
    refine ⟨(j, a), hz, ?_⟩
    rw [List.mem_map]
    refine ⟨none, ?_, rfl⟩
    unfold dcrActions
    rw [List.mem_map]
    exact ⟨d, hd, hnone⟩

/-- the goal test of the compiled problem -/
theorem dcr_goal {simp dnfE : Expr → Expr} (W : World) (hok : DcrOK simp dnfE W) {Q : Problem} (hsig : SameSig Q W.P)
    (hg : Q.goals = addGoal [] (dnfE (mkAnd W.P.goals))) (g : St) :
    goalOK (withProblem W Q) g = goalOK W g := by
  unfold goalOK
  have hQ : (withProblem W Q).P = Q := rfl
  rw [hQ, hg]
  have e1 : ∀ e, holdsG (withProblem W Q) g e = Spec.isTrue (eval (ctxOf W g) [] e) := by
    intro e; unfold holdsG; rw [isTrueB_evalBool, hsig.ctxOf W rfl]
  have e2 : W.P.goals.all (holdsG W g) = preOK (ctxOf W g) W.P.goals := by
    unfold preOK; exact all_congr_mem (fun e _ => by unfold holdsG; rw [isTrueB_evalBool])
  rw [List.all_congr rfl e1, e2, ← isTrue_mkAnd, hok.hdnf]
  have hd : disjuncts (dnfE (mkAnd W.P.goals)) = [dnfE (mkAnd W.P.goals)] := by
    unfold disjuncts
    split
    · rename_i args hor; exact absurd hor (hok.goal args)
    · rfl
  rw [hd]
  unfold addGoal
  split
  · rename_i ht; rw [ht]; rfl
  · simp

theorem sameSig_actions_goals (P : Problem) (acts : List Action) (gs : List Expr) :
    SameSig { P with actions := acts, goals := gs } P := ⟨rfl, rfl, rfl⟩

/-- DisjunctiveConditionsRemover (no goal action, no effect split) is a FORWARD simulation: soundness -/
theorem dcr_fwd {simp dnfE : Expr → Expr} (W : World) {c : Compiled} (hc : dcrCompile simp dnfE W.P = some c)
    (hok : DcrOK simp dnfE W) :
    Fwd (tsOf W) (tsOf (withProblem W c.prob)) (backOf c) (fun gB gA => gB = gA) (fun _ => True) := by
  obtain ⟨⟨acts, hacts⟩, hfw, _, _⟩ := dcrCompile_some hok.goal hc
  have hsig : SameSig c.prob W.P := by rw [hacts]; exact sameSig_actions_goals _ _ _
  have htr : c.prob.traj = W.P.traj := by rw [hacts]
  refine ⟨?_, fun _ _ => trivial, fun _ _ _ _ => trivial, ?_, ?_, ?_⟩
  · intro sB hB _
    refine ⟨sB, ?_, rfl⟩
    have : (tsOf (withProblem W c.prob)).init = initOf (withProblem W c.prob) := rfl
    rw [this, hsig.initOf W rfl htr (by rw [hacts])] at hB
    exact hB
  · intro sB sA b sB' ao hR hstep _ hb
    subst hR
    obtain ⟨a', ha', hst⟩ := tsOf_step hstep
    obtain ⟨j, a, d, hbj, hao, hd, hv⟩ := hfw b a' ha'
    rw [hb] at hbj; cases hbj
    rw [hsig.stepAct W rfl htr] at hst
    have hmem := List.mem_of_getElem? hao
    refine ⟨sB', ?_, rfl⟩
    rw [tsOf_step_intro hao]
    rcases dcr_step_iff W hok hmem hv sB with h1 | ⟨_, h2⟩
    · rw [h1] at hst
      -- the disjunct is true, hence the original preconditions
      have hpd := succOf_some_pre hst
      rw [preOK_singleton] at hpd
      have hpre : preOK (ctxOf W sB) a.pre = true := by
        rw [← isTrue_mkAnd, hok.hdnf, List.any_eq_true]
        exact ⟨d, hd, hpd⟩
      have hpar : a.params.isEmpty = true := by
        obtain ⟨_, rfl⟩ := dcrNewAction_some hv
        unfold stepAct at h1
        dsimp only at h1
        cases hp : a.params.isEmpty with
        | true => rfl
        | false => rw [hp] at h1; simp at h1; rw [← h1] at hst; cases hst
      unfold stepAct
      simp only [hpar, if_true]
      rw [← hst]
      exact succOf_congr W sB (by rw [hpre, preOK_singleton, hpd]) rfl
    · rw [h2] at hst; cases hst
  · intro sB sA b sB' hR hstep _ hb
    obtain ⟨a', ha', _⟩ := tsOf_step hstep
    obtain ⟨j, a, d, hbj, _⟩ := hfw b a' ha'
    rw [hb] at hbj; cases hbj
  · intro sB sA hR hg
    subst hR
    have : goalOK (withProblem W c.prob) sB = true := hg
    rw [dcr_goal W hok hsig (by rw [hacts])] at this
    exact this

/-- every action keeps an effect after the rewriting (excludes finding D-C07) -/
def dcrKeepsEffects (simp dnfE : Expr → Expr) (a : Action) : Bool := !(dcrEffects simp dnfE a.effs).isEmpty

/-- DisjunctiveConditionsRemover is a BACKWARD simulation: completeness with the same plan length -/
theorem dcr_bwd {simp dnfE : Expr → Expr} (W : World) {c : Compiled} (hc : dcrCompile simp dnfE W.P = some c)
    (hok : DcrOK simp dnfE W) (hke : ∀ a ∈ W.P.actions, dcrKeepsEffects simp dnfE a = true) :
    Bwd (tsOf W) (tsOf (withProblem W c.prob)) (backOf c) (fun gB gA => gB = gA) 0 := by
  obtain ⟨⟨acts, hacts⟩, _, hbw, hnr⟩ := dcrCompile_some hok.goal hc
  have hsig : SameSig c.prob W.P := by rw [hacts]; exact sameSig_actions_goals _ _ _
  have htr : c.prob.traj = W.P.traj := by rw [hacts]
  refine ⟨?_, ?_, ?_⟩
  · intro sA hA
    refine ⟨sA, ?_, rfl⟩
    have : (tsOf (withProblem W c.prob)).init = initOf (withProblem W c.prob) := rfl
    rw [this, hsig.initOf W rfl htr (by rw [hacts])]
    exact hA
  · intro sB sA j sA' hR hstep
    subst hR
    obtain ⟨a, ha, hst⟩ := tsOf_step hstep
    have hmem := List.mem_of_getElem? ha
    have hpar : a.params.isEmpty = true := by
      unfold stepAct at hst
      cases hp : a.params.isEmpty with
      | true => rfl
      | false => rw [hp] at hst; simp at hst
    have hst' : succOf W sB a.pre (expandEffs W.P a.effs) = some sA' := by
      unfold stepAct at hst; simpa [hpar] using hst
    have hpre := succOf_some_pre hst'
    rw [← isTrue_mkAnd, hok.hdnf, List.any_eq_true] at hpre
    obtain ⟨d, hd, hdt⟩ := hpre
    -- the variant of the true disjunct exists
    have hnf : (simp d).isFalse = false := by
      cases hf : (simp d).isFalse with
      | false => rfl
      | true =>
        have := eval_of_isFalse (c := ctxOf W sB) hf
        rw [hok.hsimp] at this
        rw [this] at hdt; cases hdt
    have hne := hnr a d hmem hd
    have hkeep := hke a hmem
    have hv : ∃ a', dcrNewAction simp dnfE d a = some (some a') := by
      unfold dcrNewAction at hne ⊢
      dsimp only at hne ⊢
      simp only [hnf, Bool.false_eq_true, if_false] at hne ⊢
      cases hsa : staticAll ⟨[], []⟩ (dcrEffects simp dnfE a.effs) with
      | none => rw [hsa] at hne; exact absurd rfl hne
      | some acc =>
        unfold dcrKeepsEffects at hkeep
        have : (dcrEffects simp dnfE a.effs).isEmpty = false := by simpa using hkeep
        simp only [this, Bool.false_eq_true, if_false]
        exact ⟨_, rfl⟩
    obtain ⟨a', hv⟩ := hv
    obtain ⟨i, hi, hbi⟩ := hbw j a a' d ha hd hv
    refine ⟨i, sA', hbi, ?_, rfl⟩
    rw [tsOf_step_intro hi, hsig.stepAct W rfl htr]
    rcases dcr_step_iff W hok hmem hv sB with h1 | ⟨h2, _⟩
    · rw [h1, ← hst']
      exact succOf_congr W sB (by rw [preOK_singleton, hdt, succOf_some_pre hst']) rfl
    · rw [hpar] at h2; cases h2
  · intro sB sA hR hg
    subst hR
    refine ⟨[], sB, Nat.le_refl _, rfl, rfl, ?_⟩
    show goalOK (withProblem W c.prob) sB = true
    rw [dcr_goal W hok hsig (by rw [hacts])]
    exact hg

end UPVerif.Compile
