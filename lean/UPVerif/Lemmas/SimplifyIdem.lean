import UPVerif.Lemmas.SimplifyQuant
/-!
Helper lemmas for `Props/C11.lean`, part 10: idempotence.  `NF` is a hereditary normal form: every
node is a fixed point of its node function given its (normal) children — for `And`/`Or`/`Plus`/`Times`
spelled out structurally (`GoodJ`, `GoodP`, `GoodT`), for the other operators as the local fixed-point
equation.  `simpF_NF`: every result of `simpF` is in normal form; `simpF_of_NF`: `simpF` is the
identity on normal forms (for every fuel above the depth).  No Mathlib.
-/
namespace UPVerif.Simp
open Expr

/-! ### normal forms -/

/-- a literal the `and`/`or` loop inserts as it is -/
def Atom (isAnd : Bool) (s : Expr) : Prop := s.boolConst? = none ∧ sameJunc? isAnd s = none

/-- argument lists on which the loop of `walk_and`/`walk_or` is the identity -/
inductive GoodJ (isAnd : Bool) : List Expr → Prop
  | nil : GoodJ isAnd []
  | snoc {l : List Expr} {s : Expr} : GoodJ isAnd l → Atom isAnd s → s ∉ l → walkNot s ∉ l →
      GoodJ isAnd (l ++ [s])

def isPlusNode : Expr → Bool
  | .app .plus _ => true
  | _ => false
def isTimesNode : Expr → Bool
  | .app .times _ => true
  | _ => false

/-- argument lists of a normal `Plus`: non-constant, non-`Plus` terms, then at most one non-zero
    constant -/
def GoodP (l : List Expr) : Prop :=
  ∃ new : List Expr, (∀ s, s ∈ new → s.num? = none ∧ isPlusNode s = false) ∧
    (l = new ∨ ∃ c : Num, c.toRat ≠ 0 ∧ l = new ++ [c.toExpr])

def GoodT (l : List Expr) : Prop :=
  ∃ new : List Expr, (∀ s, s ∈ new → s.num? = none ∧ isTimesNode s = false) ∧
    (l = new ∨ ∃ c : Num, c.toRat ≠ 0 ∧ c.toRat ≠ 1 ∧ l = new ++ [c.toExpr])

/-- the node is a fixed point of its node function -/
def nodeOK (cfg : SimpCfg) : Op → List Expr → Prop
  | .and, args => GoodJ true args ∧ 2 ≤ args.length
  | .or, args => GoodJ false args ∧ 2 ≤ args.length
  | .plus, args => GoodP args ∧ 2 ≤ args.length
  | .times, args => GoodT args ∧ 2 ≤ args.length
  | op, args => walkApp cfg op args = .ok (.app op args)

def quantOK (cfg : SimpCfg) : Quant → List Var → Expr → Prop
  | .all, vs, b => vs ≠ [] ∧ ∀ v, v ∈ vs → v ∈ freeVars b
  | .ex, vs, b => vs ≠ [] ∧ (∀ v, v ∈ vs → v ∈ freeVars b) ∧
      ∀ cs, b = .app .and cs → findElim cfg vs [] cs = none

mutual
def NF (cfg : SimpCfg) : Expr → Prop
  | .leaf _ => True
  | .app op args => NFList cfg args ∧ nodeOK cfg op args
  | .quant q vs b => NF cfg b ∧ quantOK cfg q vs b
def NFList (cfg : SimpCfg) : List Expr → Prop
  | [] => True
  | e :: es => NF cfg e ∧ NFList cfg es
end

theorem NFList_iff {cfg : SimpCfg} {es : List Expr} : NFList cfg es ↔ ∀ e, e ∈ es → NF cfg e := by
  induction es with
  | nil => simp [NFList]
  | cons e es ih => simp [NFList, ih]

/-! ### `and` / `or`: the loop on a good list -/

theorem addLits_append (acc xs ys : List Expr) :
    addLits acc (xs ++ ys) = (addLits acc xs).bind (fun acc' => addLits acc' ys) := by
  induction xs generalizing acc with
  | nil => simp [addLits]
  | cons x xs ih =>
    simp only [List.cons_append, addLits]
    cases addLit acc x with
    | none => simp
    | some acc' => simp [ih]

theorem juncLoop_append (isAnd : Bool) (acc xs ys : List Expr) :
    juncLoop isAnd acc (xs ++ ys) = (juncLoop isAnd acc xs).bind (fun acc' => juncLoop isAnd acc' ys) := by
  induction xs generalizing acc with
  | nil => simp [juncLoop]
  | cons x xs ih =>
    simp only [List.cons_append, juncLoop]
    split
    · exact ih acc
    · split
      · simp
      · split
        · split
          · simp
          · exact ih _
        · split
          · simp
          · exact ih _

theorem addLit_atom_new {acc : List Expr} {s : Expr} (h1 : s ∉ acc) (h2 : walkNot s ∉ acc) :
    addLit acc s = some (acc ++ [s]) := by
  unfold addLit
  rw [if_neg (by simpa using h2), if_neg (by simpa using h1)]

theorem juncLoop_atom {isAnd : Bool} {acc : List Expr} {s : Expr} (ha : Atom isAnd s) :
    juncLoop isAnd acc [s] = addLit acc s := by
  simp only [juncLoop]
  rw [if_neg (by rw [ha.1]; simp), if_neg (by rw [ha.1]; simp), ha.2]
  cases addLit acc s <;> rfl

/-- re-running the loop on a good list returns it -/
theorem juncLoop_good {isAnd : Bool} {l : List Expr} (h : GoodJ isAnd l) :
    juncLoop isAnd [] l = some l := by
  induction h with
  | nil => rfl
  | snoc hl ha h1 h2 ih =>
    rw [juncLoop_append, ih]
    simp only [Option.bind_some]
    rw [juncLoop_atom ha, addLit_atom_new h1 h2]

theorem GoodJ.atom {isAnd : Bool} {l : List Expr} (h : GoodJ isAnd l) : ∀ s, s ∈ l → Atom isAnd s := by
  induction h with
  | nil => intro s hs; cases hs
  | snoc hl ha h1 h2 ih =>
    intro s hs
    rcases List.mem_append.1 hs with hs | hs
    · exact ih s hs
    · simp only [List.mem_singleton] at hs; subst hs; exact ha

theorem GoodJ.not_pair {isAnd : Bool} {a : Expr} : ¬ GoodJ isAnd [a, a] := by
  intro h
  generalize hl : [a, a] = l at h
  cases h with
  | nil => cases hl
  | snoc hl' ha h1 h2 =>
    rename_i l' s
    have : l' = [a] ∧ s = a := by
      match l', hl with
      | [x], h => simp only [List.cons_append, List.nil_append, List.cons.injEq, and_true] at h; exact ⟨by rw [h.1], h.2.symm⟩
      | [], h => simp at h
      | x :: y :: r, h => simp at h
    obtain ⟨rfl, rfl⟩ := this
    exact h1 (by simp)

theorem mkJunc_of_len {isAnd : Bool} {l : List Expr} (h : 2 ≤ l.length) :
    mkJunc isAnd l = .app (if isAnd then .and else .or) l := by
  match l, h with
  | a :: b :: r, _ => cases isAnd <;> rfl

theorem walkJunc_general' (isAnd : Bool) (args : List Expr) (h : ∀ a, args ≠ [a, a]) :
    walkJunc isAnd args = juncGeneral isAnd args := by
  unfold walkJunc
  split
  · rename_i a b
    split
    · rename_i hab; subst hab; exact absurd rfl (h a)
    · rfl
  · rfl

theorem walkJunc_good {isAnd : Bool} {l : List Expr} (h : GoodJ isAnd l) (hlen : 2 ≤ l.length) :
    walkJunc isAnd l = .app (if isAnd then .and else .or) l := by
  rw [walkJunc_general' isAnd l (fun a ha => GoodJ.not_pair (ha ▸ h))]
  unfold juncGeneral
  rw [juncLoop_good h]
  exact mkJunc_of_len hlen

/-! ### `plus` / `times` on a good list -/

/-- one iteration of the `for a in args` loop of `walk_plus` -/
def plusStep (st : Num × List Expr) (a : Expr) : Num × List Expr :=
  match a.num? with
  | some c => (st.1.add c, st.2)
  | none =>
    match a with
    | .app .plus ss => ss.foldl plusItem st
    | _ => (st.1, st.2 ++ [a])

theorem plusLoop_cons (st : Num × List Expr) (a : Expr) (rest : List Expr) :
    plusLoop st (a :: rest) = plusLoop (plusStep st a) rest := by
  conv => lhs; unfold plusLoop
  unfold plusStep
  cases a with
  | leaf l => cases l <;> rfl
  | app op ss => cases op <;> rfl
  | quant q vs b => rfl

theorem plusLoop_append (st : Num × List Expr) (xs ys : List Expr) :
    plusLoop st (xs ++ ys) = plusLoop (plusLoop st xs) ys := by
  induction xs generalizing st with
  | nil => simp [plusLoop]
  | cons x xs ih => rw [List.cons_append, plusLoop_cons, plusLoop_cons, ih]

theorem plusLoop_nonconst : ∀ (new : List Expr) (st : Num × List Expr),
    (∀ s, s ∈ new → s.num? = none ∧ isPlusNode s = false) → plusLoop st new = (st.1, st.2 ++ new)
  | [], st, _ => by simp [plusLoop]
  | s :: new, st, h => by
    obtain ⟨h1, h2⟩ := h s (by simp)
    unfold plusLoop
    rw [h1]
    simp only []
    split
    · simp [isPlusNode] at h2
    · rw [plusLoop_nonconst new _ (fun s' hs' => h s' (List.mem_cons_of_mem _ hs'))]
      simp

theorem num_toExpr (c : Num) : c.toExpr.num? = some c := by
  cases c <;> rfl

theorem Num.zero_add' (c : Num) : (Num.i 0).add c = c := by
  cases c with
  | i z => simp [Num.add]
  | q r => simp [Num.add, Num.toRat, Rat.zero_add]

theorem Num.one_mul' (c : Num) : (Num.i 1).mul c = c := by
  cases c with
  | i z => simp [Num.mul]
  | q r => simp [Num.mul, Num.toRat, Rat.one_mul]

theorem mkPlus_of_len {l : List Expr} (h : 2 ≤ l.length) : mkPlus l = .app .plus l := by
  match l, h with
  | a :: b :: r, _ => rfl

theorem mkTimes_of_len {l : List Expr} (h : 2 ≤ l.length) : mkTimes l = .app .times l := by
  match l, h with
  | a :: b :: r, _ => rfl

theorem walkPlus_good {l : List Expr} (h : GoodP l) (hlen : 2 ≤ l.length) :
    walkPlus l = .app .plus l := by
  obtain ⟨new, hnew, hl⟩ := h
  rcases hl with rfl | ⟨c, hc, rfl⟩
  · unfold walkPlus
    rw [plusLoop_nonconst l _ hnew]
    simp only [Num.toRat, List.nil_append]
    rw [if_neg (by simp), if_neg (by
      intro h; rw [List.isEmpty_iff] at h; subst h; simp at hlen)]
    exact mkPlus_of_len hlen
  · unfold walkPlus
    rw [plusLoop_append, plusLoop_nonconst new _ hnew]
    simp only [List.nil_append]
    have : plusLoop (Num.i 0, new) [c.toExpr] = (c, new) := by
      unfold plusLoop
      rw [num_toExpr]
      simp only [Num.zero_add', plusLoop]
    rw [this]
    simp only []
    rw [if_pos hc]
    exact mkPlus_of_len hlen

theorem timesLoop_append (st : Num × List Expr) (xs ys : List Expr) :
    timesLoop st (xs ++ ys) = (timesLoop st xs).bind (fun st' => timesLoop st' ys) := by
  induction xs generalizing st with
  | nil => simp [timesLoop]
  | cons x xs ih =>
    simp only [List.cons_append, timesLoop]
    split
    · split
      · simp
      · exact ih _
    · split
      · split
        · simp
        · exact ih _
      · exact ih _

theorem timesLoop_nonconst : ∀ (new : List Expr) (st : Num × List Expr),
    (∀ s, s ∈ new → s.num? = none ∧ isTimesNode s = false) →
      timesLoop st new = some (st.1, st.2 ++ new)
  | [], st, _ => by simp [timesLoop]
  | s :: new, st, h => by
    obtain ⟨h1, h2⟩ := h s (by simp)
    unfold timesLoop
    rw [h1]
    simp only []
    split
    · simp [isTimesNode] at h2
    · rw [timesLoop_nonconst new _ (fun s' hs' => h s' (List.mem_cons_of_mem _ hs'))]
      simp

theorem walkTimes_good {l : List Expr} (h : GoodT l) (hlen : 2 ≤ l.length) :
    walkTimes l = .app .times l := by
  obtain ⟨new, hnew, hl⟩ := h
  rcases hl with rfl | ⟨c, hc0, hc1, rfl⟩
  · unfold walkTimes
    rw [timesLoop_nonconst l _ hnew]
    simp only [Num.toRat, List.nil_append]
    rw [if_neg (by simp), if_neg (by
      intro h; rw [List.isEmpty_iff] at h; subst h; simp at hlen)]
    exact mkTimes_of_len hlen
  · unfold walkTimes
    rw [timesLoop_append, timesLoop_nonconst new _ hnew]
    simp only [List.nil_append, Option.bind_some]
    have : timesLoop (Num.i 1, new) [c.toExpr] = some (c, new) := by
      unfold timesLoop
      rw [num_toExpr]
      simp only [if_neg hc0, Num.one_mul', timesLoop]
    rw [this]
    simp only []
    rw [if_pos hc1]
    exact mkTimes_of_len hlen

/-! ### `simpF` is the identity on normal forms -/

theorem walkApp_of_nodeOK {cfg : SimpCfg} {op : Op} {args : List Expr} (h : nodeOK cfg op args) :
    walkApp cfg op args = .ok (.app op args) := by
  cases op <;> simp only [nodeOK] at h <;> try exact h
  · simp only [walkApp, walkAnd, pure, Except.pure]; rw [walkJunc_good h.1 h.2]; rfl
  · simp only [walkApp, walkOr, pure, Except.pure]; rw [walkJunc_good h.1 h.2]; rfl
  · simp only [walkApp, pure, Except.pure]; rw [walkPlus_good h.1 h.2]
  · simp only [walkApp, pure, Except.pure]; rw [walkTimes_good h.1 h.2]

theorem mapE_id {ε : Type} {f : Expr → Except ε Expr} : ∀ {as : List Expr},
    (∀ a, a ∈ as → f a = .ok a) → mapE f as = .ok as
  | [], _ => rfl
  | a :: as, h => by
    simp only [mapE]
    rw [mapE_id (fun a' ha' => h a' (List.mem_cons_of_mem _ ha')), h a (by simp)]

theorem depth_le_depthList {a : Expr} : ∀ {as : List Expr}, a ∈ as → depth a ≤ depthList as
  | b :: as, h => by
    rw [depthList]
    rcases List.mem_cons.1 h with rfl | h
    · exact Nat.le_max_left _ _
    · exact Nat.le_trans (depth_le_depthList h) (Nat.le_max_right _ _)

theorem filter_all_mem {vs : List Var} {fv : List Var} (h : ∀ v, v ∈ vs → v ∈ fv) :
    vs.filter (fun v => fv.contains v) = vs := by
  rw [List.filter_eq_self]
  intro v hv; simpa using h v hv

theorem simpF_of_NF (cfg : SimpCfg) : ∀ (m : Nat) (e : Expr), NF cfg e → depth e < m →
    simpF cfg m e = .ok e
  | 0, _, _, h => by cases h
  | m + 1, .leaf l, _, _ => by simp [simpF]
  | m + 1, .app op args, hnf, hd => by
    simp only [NF] at hnf
    simp only [depth] at hd
    have hargs : ∀ a, a ∈ args → simpF cfg m a = .ok a := fun a ha =>
      simpF_of_NF cfg m a (NFList_iff.1 hnf.1 a ha)
        (Nat.lt_of_le_of_lt (depth_le_depthList ha) (Nat.lt_of_succ_lt_succ hd))
    simp only [simpF]
    rw [mapE_id hargs]
    exact walkApp_of_nodeOK hnf.2
  | m + 1, .quant .all vs b, hnf, hd => by
    simp only [NF, quantOK] at hnf
    simp only [depth] at hd
    simp only [simpF]
    rw [simpF_of_NF cfg m b hnf.1 (Nat.lt_of_succ_lt_succ hd)]
    simp only [walkForall]
    rw [filter_all_mem hnf.2.2, if_neg (by
      intro h; rw [List.isEmpty_iff] at h; exact hnf.2.1 h)]
  | m + 1, .quant .ex vs b, hnf, hd => by
    simp only [NF, quantOK] at hnf
    simp only [depth] at hd
    obtain ⟨hb, hne, hfv, hfind⟩ := hnf
    simp only [simpF]
    rw [simpF_of_NF cfg m b hb (Nat.lt_of_succ_lt_succ hd)]
    simp only [walkExists]
    rw [filter_all_mem hfv]
    have hlen : vs.length = (vs.length - 1) + 1 := by
      cases vs with
      | nil => exact absurd rfl hne
      | cons v vs => simp
    rw [hlen]
    have hloop : elimLoop cfg (simpF cfg m) (vs.length - 1 + 1) vs b = .ok (vs, b) := by
      unfold elimLoop
      split
      · rename_i cs
        rw [hfind cs rfl]
        rfl
      · rfl
    rw [hloop]
    simp only [pure, Except.pure]
    rw [if_neg (by intro h; rw [List.isEmpty_iff] at h; exact hne h)]

/-! ### every result of a node function is in normal form -/

section results
variable {cfg : SimpCfg}

theorem NF_bool (b : Bool) : NF cfg (Expr.bool b) := by simp [Expr.bool, NF]
theorem NF_tt : NF cfg tt := NF_bool true
theorem NF_ff : NF cfg ff := NF_bool false
theorem NF_int (z : Int) : NF cfg (Expr.int z) := by simp [Expr.int, NF]
theorem NF_real (r : Rat) : NF cfg (Expr.real r) := by simp [Expr.real, NF]
theorem NF_toExpr (c : Num) : NF cfg c.toExpr := by cases c <;> simp [Num.toExpr, NF_int, NF_real]

theorem NF_const {v : Expr} (h : v.isConstant = true) : NF cfg v := by
  unfold isConstant at h
  split at h <;> first | (simp [NF]; done) | cases h

/-- a node rebuilt with the same operator and arguments, for the operators whose normal form is the
    local fixed-point equation -/
theorem NF_app_same {op : Op} {as : List Expr} (has : ∀ a, a ∈ as → NF cfg a)
    (hop : op ≠ .and ∧ op ≠ .or ∧ op ≠ .plus ∧ op ≠ .times)
    (hw : walkApp cfg op as = .ok (.app op as)) : NF cfg (.app op as) := by
  simp only [NF]
  refine ⟨NFList_iff.2 has, ?_⟩
  obtain ⟨h1, h2, h3, h4⟩ := hop
  cases op <;> simp only [nodeOK] <;> first | exact hw | contradiction

theorem NF_arg_of_NF {op : Op} {as : List Expr} (h : NF cfg (.app op as)) :
    ∀ a, a ∈ as → NF cfg a := by
  simp only [NF] at h; exact NFList_iff.1 h.1

theorem mkNot_of_not_not {c : Expr} (h : ∀ x, c ≠ .app .not [x]) : mkNot c = .app .not [c] := by
  unfold mkNot
  split
  · rename_i x; exact absurd rfl (h x)
  · rfl

theorem NF_mkNot {c : Expr} (hc : NF cfg c) (hb : c.boolConst? = none) : NF cfg (mkNot c) := by
  by_cases h : ∃ x, c = .app .not [x]
  · obtain ⟨x, rfl⟩ := h
    simp only [mkNot]
    exact NF_arg_of_NF hc x (by simp)
  · have h' : ∀ x, c ≠ .app .not [x] := fun x hx => h ⟨x, hx⟩
    rw [mkNot_of_not_not h']
    refine NF_app_same (fun a ha => by simp only [List.mem_singleton] at ha; subst ha; exact hc)
      (by simp) ?_
    simp only [walkApp, pure, Except.pure, Except.ok.injEq]
    unfold walkNot
    split
    · simp [boolConst?] at hb
    · rename_i x; exact absurd rfl (h' x)
    · exact mkNot_of_not_not h'

theorem NF_walkNot {c : Expr} (hc : NF cfg c) : NF cfg (walkNot c) := by
  unfold walkNot
  split
  · exact NF_bool _
  · exact NF_arg_of_NF hc _ (by simp)
  · rename_i h1 h2
    refine NF_mkNot hc ?_
    unfold boolConst?
    split
    · rename_i b; exact absurd rfl (h1 b)
    · rfl

theorem NF_walkIff {a b : Expr} (ha : NF cfg a) (hb : NF cfg b) : NF cfg (walkIff a b) := by
  by_cases hsame : walkIff a b = .app .iff [a, b]
  · rw [hsame]
    refine NF_app_same (fun x hx => ?_) (by simp) (by simp [walkApp, pure, Except.pure, hsame])
    simp only [List.mem_cons, List.not_mem_nil, or_false] at hx
    rcases hx with rfl | rfl <;> assumption
  · unfold walkIff at hsame ⊢
    split
    · exact NF_bool _
    · rename_i l hl hr
      split
      · exact hb
      · exact NF_mkNot hb hr
    · rename_i r hl hr
      split
      · exact ha
      · exact NF_mkNot ha hl
    · split
      · exact NF_tt
      · rename_i hl hr hne
        simp only [hl, hr, hne, if_false] at hsame
        exact absurd rfl hsame

theorem NF_walkImplies {a b : Expr} (ha : NF cfg a) (hb : NF cfg b) : NF cfg (walkImplies a b) := by
  by_cases hsame : walkImplies a b = .app .implies [a, b]
  · rw [hsame]
    refine NF_app_same (fun x hx => ?_) (by simp) (by simp [walkApp, pure, Except.pure, hsame])
    simp only [List.mem_cons, List.not_mem_nil, or_false] at hx
    rcases hx with rfl | rfl <;> assumption
  · unfold walkImplies at hsame ⊢
    split
    · split
      · exact hb
      · exact NF_tt
    · rename_i hl
      split
      · split
        · exact NF_tt
        · exact NF_mkNot ha hl
      · rename_i hr
        split
        · exact NF_tt
        · rename_i hne
          simp only [hl, hr, hne, if_false] at hsame
          exact absurd rfl hsame

/-- binary node functions whose result is a constant leaf or the same node -/
theorem NF_of_leaf_or_same {op : Op} {a b r : Expr} (ha : NF cfg a) (hb : NF cfg b)
    (hop : op ≠ .and ∧ op ≠ .or ∧ op ≠ .plus ∧ op ≠ .times)
    (hw : walkApp cfg op [a, b] = .ok r) (hr : (∃ l, r = .leaf l) ∨ r = .app op [a, b]) :
    NF cfg r := by
  rcases hr with ⟨l, rfl⟩ | rfl
  · simp [NF]
  · refine NF_app_same (fun x hx => ?_) hop hw
    simp only [List.mem_cons, List.not_mem_nil, or_false] at hx
    rcases hx with rfl | rfl <;> assumption

theorem walkEquals_shape (a b : Expr) :
    (∃ l, walkEquals cfg a b = .leaf l) ∨ walkEquals cfg a b = .app .eq [a, b] := by
  unfold walkEquals
  split
  · exact .inl ⟨_, rfl⟩
  · split
    · exact .inl ⟨_, rfl⟩
    · split
      · split
        · exact .inl ⟨_, rfl⟩
        · exact .inr rfl
      · exact .inr rfl

theorem walkCmp_shape {strict : Bool} {a b r : Expr} (h : walkCmp strict a b = .ok r) :
    (∃ l, r = .leaf l) ∨ r = .app (if strict then .lt else .le) [a, b] := by
  unfold walkCmp at h
  split at h
  · split at h
    · simp only [pure, Except.pure, Except.ok.injEq] at h; subst h; exact .inl ⟨_, rfl⟩
    · cases h
  · simp only [pure, Except.pure, Except.ok.injEq] at h; subst h
    cases strict <;> exact .inr rfl

theorem walkDiv_shape {a b r : Expr} (h : walkDiv a b = .ok r) :
    (∃ l, r = .leaf l) ∨ r = .app .div [a, b] := by
  unfold walkDiv at h
  split at h
  · split at h
    · cases h
    · split at h <;> simp only [pure, Except.pure, Except.ok.injEq] at h <;> subst h <;>
        exact .inl ⟨_, rfl⟩
  · split at h
    · cases h
    · simp only [pure, Except.pure, Except.ok.injEq] at h; subst h; exact .inl ⟨_, rfl⟩
  · simp only [pure, Except.pure, Except.ok.injEq] at h; subst h; exact .inr rfl

/-! #### and / or -/

theorem addLit_good {isAnd : Bool} {acc acc' : List Expr} {s : Expr} (hacc : GoodJ isAnd acc)
    (hs : Atom isAnd s) (h : addLit acc s = some acc') : GoodJ isAnd acc' := by
  unfold addLit at h
  split at h
  · cases h
  · rename_i h2
    split at h
    · simp only [Option.some.injEq] at h; subst h; exact hacc
    · rename_i h1
      simp only [Option.some.injEq] at h; subst h
      exact .snoc hacc hs (by simpa using h1) (by simpa using h2)

theorem addLits_good {isAnd : Bool} : ∀ {ss acc acc' : List Expr}, GoodJ isAnd acc →
    (∀ s, s ∈ ss → Atom isAnd s) → addLits acc ss = some acc' → GoodJ isAnd acc'
  | [], acc, acc', hacc, _, h => by
    simp only [addLits, Option.some.injEq] at h; subst h; exact hacc
  | s :: ss, acc, acc', hacc, hss, h => by
    simp only [addLits] at h
    split at h
    · cases h
    · rename_i acc1 h1
      exact addLits_good (addLit_good hacc (hss s (by simp)) h1)
        (fun s' hs' => hss s' (List.mem_cons_of_mem _ hs')) h

theorem goodJ_of_NF_sameJunc {isAnd : Bool} {a : Expr} {ss : List Expr} (ha : NF cfg a)
    (hj : sameJunc? isAnd a = some ss) : GoodJ isAnd ss ∧ ∀ s, s ∈ ss → NF cfg s := by
  have := sameJunc_eq hj
  subst this
  simp only [NF] at ha
  cases isAnd
  · simp only [Bool.false_eq_true, if_false, nodeOK] at ha
    exact ⟨ha.2.1, NFList_iff.1 ha.1⟩
  · simp only [if_true, nodeOK] at ha
    exact ⟨ha.2.1, NFList_iff.1 ha.1⟩

theorem juncLoop_good_out {isAnd : Bool} : ∀ {args acc l : List Expr}, GoodJ isAnd acc →
    (∀ a, a ∈ args → NF cfg a) → juncLoop isAnd acc args = some l → GoodJ isAnd l
  | [], acc, l, hacc, _, h => by
    simp only [juncLoop, Option.some.injEq] at h; subst h; exact hacc
  | a :: rest, acc, l, hacc, hargs, h => by
    have hrest : ∀ a', a' ∈ rest → NF cfg a' := fun a' ha' => hargs a' (List.mem_cons_of_mem _ ha')
    simp only [juncLoop] at h
    split at h
    · exact juncLoop_good_out hacc hrest h
    · rename_i hn1
      split at h
      · cases h
      · rename_i hn2
        split at h
        · rename_i ss hss
          obtain ⟨hg, _⟩ := goodJ_of_NF_sameJunc (hargs a (by simp)) hss
          split at h
          · cases h
          · rename_i acc1 h1
            exact juncLoop_good_out (addLits_good hacc hg.atom h1) hrest h
        · rename_i hss
          split at h
          · cases h
          · rename_i acc1 h1
            have hat : Atom isAnd a := by
              refine ⟨?_, hss⟩
              cases hb : a.boolConst? with
              | none => rfl
              | some c =>
                rw [hb] at hn1 hn2
                cases c <;> cases isAnd <;> simp at hn1 hn2
            exact juncLoop_good_out (addLit_good hacc hat h1) hrest h

theorem NF_walkJunc {isAnd : Bool} {as : List Expr} (has : ∀ a, a ∈ as → NF cfg a) :
    NF cfg (walkJunc isAnd as) := by
  have hg : NF cfg (juncGeneral isAnd as) := by
    unfold juncGeneral
    split
    · exact NF_bool _
    · rename_i l hl
      have hnf : ∀ e, e ∈ l → NF cfg e :=
        juncLoop_all (P := NF cfg) isAnd (fun a ss hpa hss => (goodJ_of_NF_sameJunc hpa hss).2)
          (acc := []) (fun e he => absurd he (by simp)) has hl
      have hgood := juncLoop_good_out (cfg := cfg) GoodJ.nil has hl
      match l, hnf, hgood with
      | [], _, _ => cases isAnd <;> simp [mkJunc, mkAnd, mkOr, NF_tt, NF_ff]
      | [e], hnf, _ =>
        have : mkJunc isAnd [e] = e := by cases isAnd <;> rfl
        rw [this]; exact hnf e (by simp)
      | e1 :: e2 :: r, hnf, hgood =>
        rw [mkJunc_of_len (by simp)]
        simp only [NF]
        refine ⟨NFList_iff.2 hnf, ?_⟩
        cases isAnd
        · simp only [Bool.false_eq_true, if_false, nodeOK]; exact ⟨hgood, by simp⟩
        · simp only [if_true, nodeOK]; exact ⟨hgood, by simp⟩
  unfold walkJunc
  split
  · split
    · exact has _ (by simp)
    · exact hg
  · exact hg

/-! #### plus -/

/-- what `walk_plus` keeps in `new_args_plus` -/
def TermP (cfg : SimpCfg) (s : Expr) : Prop := s.num? = none ∧ isPlusNode s = false ∧ NF cfg s

theorem plusItem_good {st : Num × List Expr} {s : Expr} (hst : ∀ e, e ∈ st.2 → TermP cfg e)
    (hs : s.num? = none → TermP cfg s) : ∀ e, e ∈ (plusItem st s).2 → TermP cfg e := by
  unfold plusItem
  split
  · exact hst
  · rename_i hn
    intro e he
    rcases List.mem_append.1 he with he | he
    · exact hst e he
    · simp only [List.mem_singleton] at he; subst he; exact hs hn

theorem foldl_plusItem_good : ∀ {ss : List Expr} {st : Num × List Expr},
    (∀ e, e ∈ st.2 → TermP cfg e) → (∀ s, s ∈ ss → s.num? = none → TermP cfg s) →
    ∀ e, e ∈ (ss.foldl plusItem st).2 → TermP cfg e
  | [], st, hst, _ => by simpa using hst
  | s :: ss, st, hst, hss => by
    simp only [List.foldl_cons]
    exact foldl_plusItem_good (plusItem_good hst (hss s (by simp)))
      (fun s' hs' => hss s' (List.mem_cons_of_mem _ hs'))

theorem goodP_terms {ss : List Expr} (hg : GoodP ss) (hnf : ∀ s, s ∈ ss → NF cfg s) :
    ∀ s, s ∈ ss → s.num? = none → TermP cfg s := by
  obtain ⟨new, hnew, hl⟩ := hg
  intro s hs hn
  have hsn : s ∈ new := by
    rcases hl with rfl | ⟨c, _, rfl⟩
    · exact hs
    · rcases List.mem_append.1 hs with hs | hs
      · exact hs
      · simp only [List.mem_singleton] at hs; subst hs
        rw [num_toExpr] at hn; cases hn
  exact ⟨(hnew s hsn).1, (hnew s hsn).2, hnf s hs⟩

theorem plusStep_good {st : Num × List Expr} {a : Expr} (hst : ∀ e, e ∈ st.2 → TermP cfg e)
    (ha : NF cfg a) : ∀ e, e ∈ (plusStep st a).2 → TermP cfg e := by
  unfold plusStep
  split
  · exact hst
  · rename_i hn
    split
    · rename_i ss
      simp only [NF, nodeOK] at ha
      exact foldl_plusItem_good hst (goodP_terms ha.2.1 (NFList_iff.1 ha.1))
    · rename_i hnp
      intro e he
      rcases List.mem_append.1 he with he | he
      · exact hst e he
      · simp only [List.mem_singleton] at he; subst he
        refine ⟨hn, ?_, ha⟩
        unfold isPlusNode
        split
        · rename_i ss; exact absurd rfl (hnp ss)
        · rfl

theorem plusLoop_good : ∀ {args : List Expr} {st : Num × List Expr},
    (∀ e, e ∈ st.2 → TermP cfg e) → (∀ a, a ∈ args → NF cfg a) →
    ∀ e, e ∈ (plusLoop st args).2 → TermP cfg e
  | [], st, hst, _ => by simpa [plusLoop] using hst
  | a :: rest, st, hst, hargs => by
    rw [plusLoop_cons]
    exact plusLoop_good (plusStep_good hst (hargs a (by simp)))
      (fun a' ha' => hargs a' (List.mem_cons_of_mem _ ha'))

theorem NF_walkPlus {as : List Expr} (has : ∀ a, a ∈ as → NF cfg a) : NF cfg (walkPlus as) := by
  have hl := plusLoop_good (cfg := cfg) (st := (.i 0, [])) (fun e he => absurd he (by simp)) has
  unfold walkPlus
  simp only []
  generalize plusLoop (Num.i 0, []) as = st at hl
  obtain ⟨acc, new⟩ := st
  simp only at hl ⊢
  split
  · rename_i hacc
    match new, hl with
    | [], _ => simp only [List.nil_append, mkPlus]; exact NF_toExpr _
    | e :: r, hl =>
      rw [mkPlus_of_len (by simp)]
      simp only [NF, nodeOK]
      refine ⟨NFList_iff.2 ?_, ⟨e :: r, fun s hs => ⟨(hl s hs).1, (hl s hs).2.1⟩, .inr ⟨acc, hacc, rfl⟩⟩, by simp⟩
      intro x hx
      rcases List.mem_append.1 hx with hx | hx
      · exact (hl x hx).2.2
      · simp only [List.mem_singleton] at hx; subst hx; exact NF_toExpr _
  · split
    · exact NF_int 0
    · match new, hl with
      | [], _ => simp only [mkPlus]; exact NF_int 0
      | [e], hl => simp only [mkPlus]; exact (hl e (by simp)).2.2
      | e1 :: e2 :: r, hl =>
        rw [mkPlus_of_len (by simp)]
        simp only [NF, nodeOK]
        exact ⟨NFList_iff.2 (fun x hx => (hl x hx).2.2),
          ⟨e1 :: e2 :: r, fun s hs => ⟨(hl s hs).1, (hl s hs).2.1⟩, .inl rfl⟩, by simp⟩

theorem NF_walkMinus {a b : Expr} (ha : NF cfg a) (hb : NF cfg b) : NF cfg (walkMinus a b) := by
  by_cases hsame : walkMinus a b = .app .minus [a, b]
  · rw [hsame]
    refine NF_app_same (fun x hx => ?_) (by simp) (by simp [walkApp, pure, Except.pure, hsame])
    simp only [List.mem_cons, List.not_mem_nil, or_false] at hx
    rcases hx with rfl | rfl <;> assumption
  · unfold walkMinus at hsame ⊢
    split
    · exact NF_toExpr _
    · split
      · refine NF_walkPlus (fun x hx => ?_)
        simp only [List.mem_cons, List.not_mem_nil, or_false] at hx
        rcases hx with rfl | rfl
        · exact ha
        · exact NF_toExpr _
      · rename_i h1 h2 h3
        simp only [h1, h2, h3, if_false] at hsame
        exact absurd rfl hsame
    · rename_i h1
      simp only [h1] at hsame
      exact absurd rfl hsame

/-! #### times -/

theorem Num.mul_toRat' (a b : Num) : (a.mul b).toRat = a.toRat * b.toRat := by
  cases a <;> cases b <;> simp [Num.mul, Num.toRat, Rat.intCast_mul]

theorem foldl_timesItem_none' (ss : List Expr) : ss.foldl timesItem none = none := by
  induction ss with
  | nil => rfl
  | cons s ss ih => simpa [List.foldl_cons, timesItem] using ih

def TermT (cfg : SimpCfg) (s : Expr) : Prop := s.num? = none ∧ isTimesNode s = false ∧ NF cfg s

/-- the state of the `walk_times` loop: kept factors are terms, the accumulator is not zero -/
def StT (cfg : SimpCfg) (st : Num × List Expr) : Prop := (∀ e, e ∈ st.2 → TermT cfg e) ∧ st.1.toRat ≠ 0

theorem timesItem_good {st st' : Num × List Expr} {s : Expr} (hst : StT cfg st)
    (hs : s.num? = none → TermT cfg s) (h : timesItem (some st) s = some st') : StT cfg st' := by
  simp only [timesItem] at h
  split at h
  · rename_i c hc
    split at h
    · cases h
    · rename_i hc0
      simp only [Option.some.injEq] at h; subst h
      refine ⟨hst.1, ?_⟩
      simp only [Num.mul_toRat']
      have := hst.2
      intro hz; rcases Rat.mul_eq_zero.1 hz with hz | hz <;> contradiction
  · rename_i hn
    simp only [Option.some.injEq] at h; subst h
    refine ⟨?_, hst.2⟩
    intro e he
    rcases List.mem_append.1 he with he | he
    · exact hst.1 e he
    · simp only [List.mem_singleton] at he; subst he; exact hs hn

theorem foldl_timesItem_good : ∀ {ss : List Expr} {st st' : Num × List Expr}, StT cfg st →
    (∀ s, s ∈ ss → s.num? = none → TermT cfg s) → ss.foldl timesItem (some st) = some st' →
    StT cfg st'
  | [], st, st', hst, _, h => by
    simp only [List.foldl_nil, Option.some.injEq] at h; subst h; exact hst
  | s :: ss, st, st', hst, hss, h => by
    simp only [List.foldl_cons] at h
    cases h1 : timesItem (some st) s with
    | none => rw [h1, foldl_timesItem_none'] at h; cases h
    | some st1 =>
      rw [h1] at h
      exact foldl_timesItem_good (timesItem_good hst (hss s (by simp)) h1)
        (fun s' hs' => hss s' (List.mem_cons_of_mem _ hs')) h

theorem goodT_terms {ss : List Expr} (hg : GoodT ss) (hnf : ∀ s, s ∈ ss → NF cfg s) :
    ∀ s, s ∈ ss → s.num? = none → TermT cfg s := by
  obtain ⟨new, hnew, hl⟩ := hg
  intro s hs hn
  have hsn : s ∈ new := by
    rcases hl with rfl | ⟨c, _, _, rfl⟩
    · exact hs
    · rcases List.mem_append.1 hs with hs | hs
      · exact hs
      · simp only [List.mem_singleton] at hs; subst hs
        rw [num_toExpr] at hn; cases hn
  exact ⟨(hnew s hsn).1, (hnew s hsn).2, hnf s hs⟩

theorem timesLoop_good : ∀ {args : List Expr} {st st' : Num × List Expr}, StT cfg st →
    (∀ a, a ∈ args → NF cfg a) → timesLoop st args = some st' → StT cfg st'
  | [], st, st', hst, _, h => by
    simp only [timesLoop, Option.some.injEq] at h; subst h; exact hst
  | a :: rest, st, st', hst, hargs, h => by
    have hrest : ∀ a', a' ∈ rest → NF cfg a' := fun a' ha' => hargs a' (List.mem_cons_of_mem _ ha')
    have ha := hargs a (by simp)
    unfold timesLoop at h
    split at h
    · rename_i c hc
      split at h
      · cases h
      · rename_i hc0
        refine timesLoop_good (st := (st.1.mul c, st.2)) ⟨hst.1, ?_⟩ hrest h
        simp only [Num.mul_toRat']
        have := hst.2
        intro hz; rcases Rat.mul_eq_zero.1 hz with hz | hz <;> contradiction
    · rename_i hn
      split at h
      · rename_i ss
        split at h
        · cases h
        · rename_i st1 h1
          simp only [NF, nodeOK] at ha
          exact timesLoop_good (foldl_timesItem_good hst (goodT_terms ha.2.1 (NFList_iff.1 ha.1)) h1)
            hrest h
      · rename_i hnt
        refine timesLoop_good (st := (st.1, st.2 ++ [a])) ⟨?_, hst.2⟩ hrest h
        intro e he
        rcases List.mem_append.1 he with he | he
        · exact hst.1 e he
        · simp only [List.mem_singleton] at he; subst he
          refine ⟨hn, ?_, ha⟩
          unfold isTimesNode
          split
          · rename_i ss; exact absurd rfl (hnt ss)
          · rfl

theorem NF_walkTimes {as : List Expr} (has : ∀ a, a ∈ as → NF cfg a) : NF cfg (walkTimes as) := by
  unfold walkTimes
  split
  · exact NF_int 0
  · rename_i st hst
    have hl := timesLoop_good (cfg := cfg) (st := (.i 1, []))
      ⟨fun e he => absurd he (by simp), by simp [Num.toRat]⟩ has hst
    obtain ⟨acc, new⟩ := st
    obtain ⟨hl, hacc0⟩ := hl
    simp only at hl hacc0 ⊢
    split
    · rename_i hacc
      match new, hl with
      | [], _ => simp only [List.nil_append, mkTimes]; exact NF_toExpr _
      | e :: r, hl =>
        rw [mkTimes_of_len (by simp)]
        simp only [NF, nodeOK]
        refine ⟨NFList_iff.2 ?_, ⟨e :: r, fun s hs => ⟨(hl s hs).1, (hl s hs).2.1⟩,
          .inr ⟨acc, hacc0, hacc, rfl⟩⟩, by simp⟩
        intro x hx
        rcases List.mem_append.1 hx with hx | hx
        · exact (hl x hx).2.2
        · simp only [List.mem_singleton] at hx; subst hx; exact NF_toExpr _
    · split
      · exact NF_int 1
      · match new, hl with
        | [], _ => simp only [mkTimes]; exact NF_int 1
        | [e], hl => simp only [mkTimes]; exact (hl e (by simp)).2.2
        | e1 :: e2 :: r, hl =>
          rw [mkTimes_of_len (by simp)]
          simp only [NF, nodeOK]
          exact ⟨NFList_iff.2 (fun x hx => (hl x hx).2.2),
            ⟨e1 :: e2 :: r, fun s hs => ⟨(hl s hs).1, (hl s hs).2.1⟩, .inl rfl⟩, by simp⟩

/-! #### the dispatch -/

theorem NF_unary_same_or_leaf {op : Op} {a r : Expr} (ha : NF cfg a)
    (hop : op ≠ .and ∧ op ≠ .or ∧ op ≠ .plus ∧ op ≠ .times)
    (hw : walkApp cfg op [a] = .ok r) (hr : (∃ l, r = .leaf l) ∨ r = .app op [a]) : NF cfg r := by
  rcases hr with ⟨l, rfl⟩ | rfl
  · simp [NF]
  · exact NF_app_same (fun x hx => by simp only [List.mem_singleton] at hx; subst hx; exact ha) hop hw

theorem initialValue_const (hct : cfg.constTables = true) {f : FluentRef} {args : List Expr} {v : Expr}
    (hv : cfg.initialValue f args = some v) : v.isConstant = true := by
  simp only [SimpCfg.constTables, Bool.and_eq_true, List.all_eq_true] at hct
  unfold SimpCfg.initialValue at hv
  split at hv
  · rename_i w hw
    simp only [Option.some.injEq] at hv; subst hv
    obtain ⟨k', hk⟩ := lookup_some_mem hw
    exact hct.1 _ hk
  · obtain ⟨k', hk⟩ := lookup_some_mem hv
    exact hct.2 _ hk

theorem walkApp_NF (hct : cfg.constTables = true) {op : Op} {as : List Expr} {e' : Expr}
    (has : ∀ a, a ∈ as → NF cfg a) (hw : walkApp cfg op as = .ok e') : NF cfg e' := by
  have hw0 := hw
  unfold walkApp at hw
  split at hw
  all_goals try (simp only [pure, Except.pure, Except.ok.injEq] at hw)
  · subst hw; exact NF_walkJunc has
  · subst hw; exact NF_walkJunc has
  · subst hw; exact NF_walkNot (has _ (by simp))
  · subst hw; exact NF_walkIff (has _ (by simp)) (has _ (by simp))
  · subst hw; exact NF_walkImplies (has _ (by simp)) (has _ (by simp))
  · subst hw
    exact NF_of_leaf_or_same (has _ (by simp)) (has _ (by simp)) (by simp) hw0 (walkEquals_shape _ _)
  · exact NF_of_leaf_or_same (has _ (by simp)) (has _ (by simp)) (by simp) hw0
      (by simpa using walkCmp_shape hw)
  · exact NF_of_leaf_or_same (has _ (by simp)) (has _ (by simp)) (by simp) hw0
      (by simpa using walkCmp_shape hw)
  · -- fluent
    rename_i f
    subst hw
    by_cases hsame : walkFluent cfg f as = .app (.fluent f) as
    · rw [hsame] at hw0 ⊢
      exact NF_app_same has (by simp) hw0
    · unfold walkFluent at hsame ⊢
      simp only [mkFluent] at hsame ⊢
      split
      · rename_i h1; exact absurd (by rw [if_pos h1]) hsame
      · rename_i h1
        split
        · rename_i h2; exact absurd (by rw [if_neg h1, if_pos h2]) hsame
        · rename_i h2
          split
          · rename_i v hv; exact NF_const (initialValue_const hct hv)
          · rename_i hv; exact absurd (by rw [if_neg h1, if_neg h2, hv]) hsame
  · -- interpreted function
    unfold walkIfun at hw
    split at hw
    · simp only [pure, Except.pure, Except.ok.injEq] at hw; subst hw
      exact NF_app_same has (by simp) hw0
    · split at hw
      · cases hw
      · unfold convResult at hw
        split at hw <;> simp only [pure, Except.pure, Except.ok.injEq, reduceCtorEq] at hw <;>
          subst hw <;> simp [Expr.bool, Expr.int, Expr.real, NF]
  · subst hw; exact NF_app_same has (by simp) hw0
  · subst hw; exact NF_walkPlus has
  · subst hw; exact NF_walkMinus (has _ (by simp)) (has _ (by simp))
  · subst hw; exact NF_walkTimes has
  · exact NF_of_leaf_or_same (has _ (by simp)) (has _ (by simp)) (by simp) hw0 (walkDiv_shape hw)
  · subst hw
    refine NF_unary_same_or_leaf (has _ (by simp)) (by simp) hw0 ?_
    unfold walkAlwaysLike
    split
    · exact .inl ⟨_, rfl⟩
    · split
      · exact .inl ⟨_, rfl⟩
      · exact .inr rfl
  · subst hw
    refine NF_unary_same_or_leaf (has _ (by simp)) (by simp) hw0 ?_
    unfold walkAlwaysLike
    split
    · exact .inl ⟨_, rfl⟩
    · split
      · exact .inl ⟨_, rfl⟩
      · exact .inr rfl
  · subst hw
    refine NF_unary_same_or_leaf (has _ (by simp)) (by simp) hw0 ?_
    unfold walkAtMostOnce
    split
    · exact .inl ⟨_, rfl⟩
    · exact .inr rfl
  · subst hw
    refine NF_of_leaf_or_same (has _ (by simp)) (has _ (by simp)) (by simp) hw0 ?_
    unfold walkSometimeBefore
    split
    · exact .inl ⟨_, rfl⟩
    · split
      · exact .inl ⟨_, rfl⟩
      · exact .inr rfl
  · subst hw
    refine NF_of_leaf_or_same (has _ (by simp)) (has _ (by simp)) (by simp) hw0 ?_
    unfold walkSometimeAfter
    split
    · exact .inl ⟨_, rfl⟩
    · split
      · exact .inl ⟨_, rfl⟩
      · split
        · exact .inl ⟨_, rfl⟩
        · exact .inr rfl
  · cases hw

/-! #### quantifiers -/

theorem NF_walkForall {vs : List Var} {b : Expr} (hb : NF cfg b) : NF cfg (walkForall vs b) := by
  unfold walkForall
  simp only []
  split
  · exact hb
  · rename_i hne
    simp only [NF, quantOK]
    refine ⟨hb, ?_, ?_⟩
    · intro h; rw [h] at hne; exact hne rfl
    · intro v hv; simpa using (List.mem_filter.1 hv).2

theorem findElim_no_vars (pre cs : List Expr) : findElim cfg [] pre cs = none := by
  induction cs generalizing pre with
  | nil => rfl
  | cons c cs ih =>
    have hv : ∀ e, isVarIn [] e = none := by
      intro e; unfold isVarIn; split
      · simp
      · rfl
    have : elimCandidate [] c = none := by
      unfold elimCandidate
      split
      · simp [hv]
      · rfl
    simp only [findElim, this]
    exact ih _

/-- when the counter covers the variables, the loop only stops because no conjunct is eligible -/
theorem elimLoop_exit {resimp : Expr → Except SimpErr Expr} :
    ∀ (n : Nat) (vars : List Var) (e : Expr) (vars' : List Var) (e' : Expr), vars.length ≤ n →
      elimLoop cfg resimp n vars e = .ok (vars', e') →
      ∀ cs, e' = .app .and cs → findElim cfg vars' [] cs = none
  | 0, vars, e, vars', e', hlen, h, cs, _ => by
    simp only [elimLoop, pure, Except.pure, Except.ok.injEq, Prod.mk.injEq] at h
    obtain ⟨rfl, rfl⟩ := h
    have : vars = [] := List.length_eq_zero_iff.1 (Nat.le_zero.1 hlen)
    subst this
    exact findElim_no_vars _ _
  | n + 1, vars, e, vars', e', hlen, h, cs, hcs => by
    unfold elimLoop at h
    split at h
    · rename_i cs0
      split at h
      · rename_i hnone
        simp only [pure, Except.pure, Except.ok.injEq, Prod.mk.injEq] at h
        obtain ⟨rfl, rfl⟩ := h
        simp only [Expr.app.injEq, true_and] at hcs
        subst hcs; exact hnone
      · rename_i x value rest hf
        split at h
        · cases h
        · rename_i e1 hr
          refine elimLoop_exit n _ e1 vars' e' ?_ h cs hcs
          obtain ⟨_, _, _, _, _, hcand, _⟩ := findElim_some hf
          have hx := (elimCandidate_some hcand).1
          have h1 : (vars.filter (fun v => v != x)).length < vars.length := by
            apply List.length_filter_lt_length_iff_exists.2
            exact ⟨x, hx, by simp⟩
          have h2 := List.length_filter_le (fun v => (freeVars e1).contains v)
            (vars.filter (fun v => v != x))
          omega
    · rename_i hnot
      simp only [pure, Except.pure, Except.ok.injEq, Prod.mk.injEq] at h
      obtain ⟨rfl, rfl⟩ := h
      exact absurd hcs (hnot cs)

theorem NF_walkExists {resimp : Expr → Except SimpErr Expr} {vs : List Var} {b e' : Expr}
    (hb : NF cfg b) (hres : ∀ x y, resimp x = .ok y → NF cfg y)
    (hw : walkExists cfg resimp vs b = .ok e') : NF cfg e' := by
  obtain ⟨vars', b', hloop, rfl⟩ := walkExists_ok hw
  have hinv := elimLoop_inv (cfg := cfg) (resimp := resimp)
    (fun vars e => NF cfg e ∧ ∀ v, v ∈ vars → v ∈ freeVars e) ?_ _ _ _ _ _
    ⟨hb, fun v hv => by simpa using (List.mem_filter.1 hv).2⟩ hloop
  · have hexit := elimLoop_exit _ _ _ _ _ (Nat.le_refl _) hloop
    split
    · exact hinv.1
    · rename_i hne
      simp only [NF, quantOK]
      refine ⟨hinv.1, ?_, hinv.2, hexit⟩
      intro h; rw [h] at hne; exact hne rfl
  · intro vars cs x value rest e1 _ _ hr
    exact ⟨hres _ _ hr, fun v hv => by simpa using (List.mem_filter.1 hv).2⟩

end results

/-! ### the two halves and idempotence -/

/-- every result of the simplifier is in normal form -/
theorem simpF_NF (cfg : SimpCfg) (hct : cfg.constTables = true) :
    ∀ n e e', simpF cfg n e = .ok e' → NF cfg e' := by
  apply simpF_induct cfg (fun _ e' => NF cfg e')
  · intro l; simp [NF]
  · intro op args as e' hall hw
    exact walkApp_NF hct (All₂.forall_right (R := fun _ e' => NF cfg e') (Q := fun _ => True)
      (Q' := fun b => NF cfg b) (fun _ _ hab _ => hab) hall (fun _ _ => trivial)) hw
  · intro vs b b' hb; exact NF_walkForall hb
  · intro vs b b' e' resimp hb hres hw; exact NF_walkExists hb hres hw

/-- simplifying a simplified expression changes nothing, for every fuel above its depth -/
theorem simpF_idem (cfg : SimpCfg) (hct : cfg.constTables = true) (n : Nat) (e e' : Expr)
    (h : simpF cfg n e = .ok e') : ∀ m, depth e' < m → simpF cfg m e' = .ok e' :=
  fun m hm => simpF_of_NF cfg m e' (simpF_NF cfg hct n e e' h) hm

mutual
theorem depth_le_size : ∀ e : Expr, depth e ≤ e.size
  | .leaf _ => by simp [depth, Expr.size]
  | .app _ args => by
    have := depthList_le_sizeList args
    simp only [depth, Expr.size]; omega
  | .quant _ _ b => by
    have := depth_le_size b
    simp only [depth, Expr.size]; omega
theorem depthList_le_sizeList : ∀ es : List Expr, depthList es ≤ Expr.sizeList es
  | [] => by simp [depthList, Expr.sizeList]
  | e :: es => by
    have h1 := depth_le_size e
    have h2 := depthList_le_sizeList es
    simp only [depthList, Expr.sizeList]
    omega
end

theorem simplify_idem (cfg : SimpCfg) (hct : cfg.constTables = true) (e e' : Expr)
    (h : simplify cfg e = .ok e') : simplify cfg e' = .ok e' := by
  unfold simplify at h ⊢
  refine simpF_idem cfg hct _ e e' h _ ?_
  have := depth_le_size e'
  unfold defaultFuel
  have h2 : e'.size + 1 ≤ (e'.size + 1) * (e'.size + 1) := Nat.le_mul_of_pos_left _ (by omega)
  omega

end UPVerif.Simp
