import UPVerif.Lemmas.WellFormedBasic
/-!
Helper lemmas for `Props/C08Models.lean`, part 8: the named model of `DisjunctiveConditionsRemover`
(`dcrCompileN`, Core/Compile/Named.lean).  Every action it creates is named afresh against the problem under
construction; for a disjunctive goal the fake goal fluent is named before the fake actions exist and declared after
them — the compiled problem is well-formed all the same, its map-back is total and lands in the original problem,
and (given the postcondition of the DNF walker on the conditions it is applied to) no precondition or goal of the
compiled problem contains a disjunction.  No Mathlib.
-/
namespace UPVerif.Compile
open UPVerif UPVerif.Expr UPVerif.Sim UPVerif.WF UPVerif.Declared UPVerif.Fresh

/-- the DNF walker introduces no new symbol -/
def DnfWF (dnfE : Expr → Expr) : Prop :=
  ∀ (D : Decls) (ps : List (String × Ty)) (e : Expr), wfExpr D ps e = true → wfExpr D ps (dnfE e) = true

theorem DnfWF_id : DnfWF id := fun _ _ _ h => h

/-- the simplifier creates no disjunction -/
def SimpDF (simp : Expr → Expr) : Prop := ∀ e, disjFree e = true → disjFree (simp e) = true

theorem SimpDF_id : SimpDF id := fun _ h => h

/-- postcondition of the DNF walker on one condition: every disjunct of the result is free of disjunctions -/
def DisjOut (e : Expr) : Prop := ∀ d ∈ disjuncts e, disjFree d = true

theorem holds_disjuncts {N : NodePred} {e : Expr} (h : holds N e = true) : ∀ d ∈ disjuncts e, holds N d = true := by
  unfold disjuncts
  split
  · exact ((holds_app _ _ _).1 h).2
  · intro d hd
    simp only [List.mem_singleton] at hd
    subst hd
    exact h

/-! ### one new action -/

theorem dcrEffects_wf {simp dnfE : Expr → Expr} (hs : SimpWF simp) (hd : DnfWF dnfE) {D : Decls}
    {ps : List (String × Ty)} {effs : List Effect} (he : ∀ e ∈ effs, wfEffect D ps e = true) :
    ∀ x ∈ dcrEffects simp dnfE effs, wfEffect D ps x = true := by
  intro x hx
  unfold dcrEffects at hx
  obtain ⟨e, hem, hxe⟩ := List.mem_flatMap.1 hx
  have hw := (wfEffect_iff D ps e).1 (he e hem)
  have hnc : wfExpr D ps (simp (dnfE e.cond)) = true := hs _ _ _ (hd _ _ _ hw.2.2.2)
  simp only [] at hxe
  split at hxe
  · split at hxe
    · rename_i args heq
      obtain ⟨a, ha, rfl⟩ := List.mem_map.1 hxe
      rw [wfEffect_iff]
      refine ⟨hw.1, hw.2.1, hw.2.2.1, ?_⟩
      rw [heq] at hnc
      exact ((holds_app _ _ _).1 hnc).2 a ha
    · split at hxe
      · cases hxe
      · simp only [List.mem_singleton] at hxe
        subst hxe
        rw [wfEffect_iff]
        exact ⟨hw.1, hw.2.1, hw.2.2.1, hnc⟩
  · simp only [List.mem_singleton] at hxe
    rw [hxe]
    exact he e hem

/-- `_create_new_action_with_given_precond`: name and parameters of the original, preconditions = conjuncts of the
    simplified disjunct, effects = the original's with split conditions -/
theorem dcrNewAction_spec {simp dnfE : Expr → Expr} {precond : Expr} {a a' : Action}
    (h : dcrNewAction simp dnfE precond a = some (some a')) :
    a'.name = a.name ∧ a'.params = a.params ∧ (∀ x ∈ a'.pre, x ∈ splitAnd (simp precond)) ∧
    a'.effs = dcrEffects simp dnfE a.effs := by
  unfold dcrNewAction at h
  simp only [] at h
  split at h
  · cases h
  · split at h
    · cases h
    · split at h
      · cases h
      · simp only [Option.some.injEq] at h
        subst h
        refine ⟨rfl, rfl, ?_, rfl⟩
        intro x hx
        rcases mem_foldl_addPre _ _ x hx with hx | hx
        · cases hx
        · exact hx

theorem dcrNewAction_wf {simp dnfE : Expr → Expr} (hs : SimpWF simp) (hd : DnfWF dnfE) {D : Decls} {precond : Expr}
    {a a' : Action} (h : dcrNewAction simp dnfE precond a = some (some a')) (ha : wfAction D a = true)
    (hp : wfExpr D a.params precond = true) : wfAction D a' = true := by
  obtain ⟨_, hpar, hpre, heff⟩ := dcrNewAction_spec h
  rw [wfAction_iff] at ha ⊢
  rw [hpar, heff]
  exact ⟨ha.1, fun x hx => holds_splitAnd (hs _ _ _ hp) x (hpre x hx), dcrEffects_wf hs hd ha.2.2⟩

theorem dcrNewAction_disjFree {simp dnfE : Expr → Expr} (hs : SimpDF simp) {precond : Expr} {a a' : Action}
    (h : dcrNewAction simp dnfE precond a = some (some a')) (hp : disjFree precond = true) :
    ∀ x ∈ a'.pre, disjFree x = true :=
  fun x hx => holds_splitAnd (hs _ hp) x ((dcrNewAction_spec h).2.2.1 x hx)

/-! ### the first loop: the actions of the problem -/

theorem dcrMeaningful_spec {simp dnfE : Expr → Expr} {P : Problem} {meaningful : List (Action × Option Nat)}
    (h : dcrMeaningful simp dnfE P = some meaningful) :
    ∀ ab ∈ meaningful, ∃ i a d, ab.2 = some i ∧ P.actions[i]? = some a ∧ i < P.actions.length ∧
      d ∈ disjuncts (dnfE (mkAnd a.pre)) ∧ dcrNewAction simp dnfE d a = some (some ab.1) := by
  unfold dcrMeaningful at h
  simp only [] at h
  split at h
  · cases h
  · simp only [Option.some.injEq] at h
    intro ab hab
    rw [← h] at hab
    obtain ⟨r, hr, hrab⟩ := List.mem_filterMap.1 hab
    obtain ⟨ia, hia, hrm⟩ := List.mem_flatMap.1 hr
    obtain ⟨hget, hlt⟩ := mem_zip_range (i := ia.1) (a := ia.2) hia
    obtain ⟨res, hres, rfl⟩ := List.mem_map.1 hrm
    unfold dcrActions at hres
    obtain ⟨d, hd, rfl⟩ := List.mem_map.1 hres
    cases hnew : dcrNewAction simp dnfE d ia.2 with
    | none => simp [hnew] at hrab
    | some r1 =>
      cases r1 with
      | none => simp [hnew] at hrab
      | some a' =>
        simp only [hnew, Option.join_some, Option.map_some, Option.some.injEq] at hrab
        subst hrab
        exact ⟨ia.1, ia.2, d, rfl, hget, hlt, hd, hnew⟩

theorem dcrMeaningful_wf {simp dnfE : Expr → Expr} (hs : SimpWF simp) (hd : DnfWF dnfE) {P : Problem}
    (hP : WellFormed P) {meaningful : List (Action × Option Nat)} (h : dcrMeaningful simp dnfE P = some meaningful) :
    ∀ ab ∈ meaningful, wfAction (declsOf P) ab.1 = true := by
  intro ab hab
  obtain ⟨i, a, d, _, hget, _, hdm, hnew⟩ := dcrMeaningful_spec h ab hab
  have ha := hP.actions a (List.mem_of_getElem? hget)
  refine dcrNewAction_wf hs hd hnew ha ?_
  exact holds_disjuncts (hd _ _ _ (wfExpr_mkAnd ((wfAction_iff _ _).1 ha).2.1)) d hdm

/-! ### names -/

theorem otherNames_nodup {P : Problem} (hP : WellFormed P) : (otherNames P).Nodup :=
  (List.sublist_append_left _ _).nodup hP.names

theorem fresh_flags (l : List (Action × Option Nat)) : ∀ x ∈ l.map (fun ab => (ab.1, true)), x.2 = true := by
  intro x hx
  obtain ⟨ab, _, rfl⟩ := List.mem_map.1 hx
  rfl

/-- the names of a disjunctive-goal compilation: the old names, the fake fluent's, the meaningful actions', the fake
    actions' -/
theorem dcr_or_names_nodup {O N1 N2 T Ob F : List String} {fn : String} (hO : O = T ++ Ob ++ F)
    (h : (fn :: (N2.reverse ++ (N1.reverse ++ O))).Nodup) :
    ((T ++ Ob ++ (F ++ [fn])) ++ (N1 ++ N2)).Nodup := by
  refine (List.Perm.nodup_iff ?_).1 h
  rw [List.perm_iff_count]
  intro a
  subst hO
  simp only [List.count_append, List.count_reverse, List.count_cons, List.count_nil]
  omega

/-! ### the fake goal -/

theorem wfAction_fakeActionOf {D : Decls} {fake : FluentRef} (hf : fake ∈ D.fluents) (hsig : fake.sig = []) :
    wfAction D (fakeActionOf fake) = true := by
  rw [wfAction_iff]
  refine ⟨fun p hp => (by cases hp), fun e he => (by cases he), ?_⟩
  intro e he
  simp only [fakeActionOf, List.mem_singleton] at he
  subst he
  rw [wfEffect_iff]
  refine ⟨fun v hv => (by cases hv), ?_, wfExpr_tt _ _, wfExpr_tt _ _⟩
  unfold wfExpr mkFluent
  rw [holds_app]
  refine ⟨?_, fun e he => (by cases he)⟩
  show (D.fluents.contains fake && ([] : List Expr).length == fake.sig.length) = true
  rw [hsig]
  simpa using hf

theorem wfEffect_resetOf {D : Decls} {fake : FluentRef} (hf : fake ∈ D.fluents) (hsig : fake.sig = [])
    (ps : List (String × Ty)) : wfEffect D ps (resetOf fake) = true := by
  rw [wfEffect_iff]
  refine ⟨fun v hv => (by cases hv), ?_, wfExpr_ff _ _, wfExpr_tt _ _⟩
  show wfExpr D ps (mkFluent fake []) = true
  unfold wfExpr mkFluent
  rw [holds_app]
  refine ⟨?_, fun e he => (by cases he)⟩
  show (D.fluents.contains fake && ([] : List Expr).length == fake.sig.length) = true
  rw [hsig]
  simpa using hf

/-! ### the compiled problem -/

/-- the declarations once the fake goal fluent is added -/
def dcrDecls (P : Problem) (fake : FluentRef) : Decls :=
  { types := (declsOf P).types, objects := (declsOf P).objects, fluents := (declsOf P).fluents ++ [fake] }

theorem wfExpr_dcrDecls (P : Problem) (fake : FluentRef) (ps : List (String × Ty)) (e : Expr)
    (h : wfExpr (declsOf P) ps e = true) : wfExpr (dcrDecls P fake) ps e = true :=
  wfExpr_decls_mono (D := declsOf P) (D' := dcrDecls P fake) (fun _ h => h) (fun _ h => h)
    (fun _ h => List.mem_append_left _ h) e h

theorem tyDeclared_dcrDecls (P : Problem) (fake : FluentRef) (t : Ty) :
    tyDeclared (dcrDecls P fake) t = tyDeclared (declsOf P) t := by cases t <;> rfl

theorem wfAction_dcrDecls (P : Problem) (fake : FluentRef) {a : Action} (h : wfAction (declsOf P) a = true) :
    wfAction (dcrDecls P fake) a = true := by
  rw [wfAction_iff] at h ⊢
  refine ⟨fun p hp => by rw [tyDeclared_dcrDecls]; exact h.1 p hp, fun e he => wfExpr_dcrDecls P fake _ e (h.2.1 e he), ?_⟩
  intro e he
  have := (wfEffect_iff _ _ _).1 (h.2.2 e he)
  rw [wfEffect_iff]
  exact ⟨fun v hv => by rw [tyDeclared_dcrDecls]; exact this.1 v hv, wfExpr_dcrDecls P fake _ _ this.2.1,
    wfExpr_dcrDecls P fake _ _ this.2.2.1, wfExpr_dcrDecls P fake _ _ this.2.2.2⟩

/-- the two shapes of the result of `dcrCompileN` -/
theorem dcrCompileN_cases {simp dnfE : Expr → Expr} {P : Problem} {c : Compiled}
    (h : dcrCompileN simp dnfE P = some c) :
    ∃ meaningful, dcrMeaningful simp dnfE P = some meaningful ∧
      ((∃ args, dnfE (mkAnd P.goals) = .app .or args ∧
          (dcrFakes simp dnfE (dcrFake P meaningful) args).any (fun r => r.isNone) = false ∧
          c = dcrOrResult P meaningful ((dcrFakes simp dnfE (dcrFake P meaningful) args).filterMap (fun r => r.join))) ∨
       ((∀ args, dnfE (mkAnd P.goals) ≠ .app .or args) ∧
          c = { prob := { P with actions := dcrNamed P meaningful, goals := addGoal [] (dnfE (mkAnd P.goals)) },
                back := meaningful.map (·.2) })) := by
  unfold dcrCompileN at h
  split at h
  · cases h
  · rename_i meaningful hm
    refine ⟨meaningful, hm, ?_⟩
    split at h
    · rename_i args heq
      split at h
      · cases h
      · rename_i hany
        simp only [Option.some.injEq] at h
        exact .inl ⟨args, heq, Bool.eq_false_iff.2 hany, h.symm⟩
    · rename_i hne
      simp only [Option.some.injEq] at h
      exact .inr ⟨hne, h.symm⟩

/-- the fake actions that survive: each is `_create_new_action_with_given_precond` of a disjunct of the goal -/
theorem dcrFakes_mem {simp dnfE : Expr → Expr} {fake : FluentRef} {args : List Expr} {fa : Action}
    (h : fa ∈ (dcrFakes simp dnfE fake args).filterMap (fun r => r.join)) :
    ∃ d ∈ args, dcrNewAction simp dnfE d (fakeActionOf fake) = some (some fa) := by
  obtain ⟨r, hr, hj⟩ := List.mem_filterMap.1 h
  obtain ⟨d, hd, rfl⟩ := List.mem_map.1 hr
  refine ⟨d, hd, ?_⟩
  cases hnew : dcrNewAction simp dnfE d (fakeActionOf fake) with
  | none => simp [hnew] at hj
  | some r1 =>
    cases r1 with
    | none => simp [hnew] at hj
    | some a' =>
      simp only [hnew, Option.join_some, Option.some.injEq] at hj
      rw [hj]

theorem dcr_wellFormed {simp dnfE : Expr → Expr} (hs : SimpWF simp) (hd : DnfWF dnfE) {P : Problem} {c : Compiled}
    (hP : WellFormed P) (hm : P.metrics = []) (h : dcrCompileN simp dnfE P = some c) : WellFormed c.prob := by
  obtain ⟨meaningful, hmean, hcase⟩ := dcrCompileN_cases h
  have hOn := otherNames_nodup hP
  have hmw := dcrMeaningful_wf hs hd hP hmean
  have hgoal : wfExpr (declsOf P) [] (dnfE (mkAnd P.goals)) = true := hd _ _ _ (wfExpr_mkAnd hP.goals)
  have hcurN : (dcrCur P meaningful).Nodup := namesAfter_fresh_nodup _ _ hOn (fresh_flags meaningful)
  rcases hcase with ⟨args, hor, _, rfl⟩ | ⟨hne, rfl⟩
  · -- disjunctive goal
    have hdecl : declsOf (dcrOrResult P meaningful
        ((dcrFakes simp dnfE (dcrFake P meaningful) args).filterMap (fun r => r.join))).prob
        = dcrDecls P (dcrFake P meaningful) := by
      simp only [dcrOrResult, declsOf, dcrDecls, List.map_append, List.map_cons, List.map_nil]
    have hfake : dcrFake P meaningful ∈ (dcrDecls P (dcrFake P meaningful)).fluents := by simp [dcrDecls]
    refine ⟨?_, ?_, ?_, ?_, ?_, ?_, ?_, ?_⟩
    · -- names
      show ((typeNames P ++ objectNames P ++ (P.fluents ++ [({ ref := dcrFake P meaningful, default := some Expr.ff } : FluentDecl)]).map
          (fun d => d.ref.name)) ++
        ((dcrNamed P meaningful).map (fun a => ({ a with effs := a.effs ++ [resetOf (dcrFake P meaningful)] } : Action)) ++
          assignNames (dcrCur P meaningful) (((dcrFakes simp dnfE (dcrFake P meaningful) args).filterMap
            (fun r => r.join)).map (fun a => (a, true)))).map (·.name)).Nodup
      rw [List.map_append, List.map_append, List.map_map]
      have hreset : (fun a : Action => a.name) ∘ (fun a : Action =>
          ({ a with effs := a.effs ++ [resetOf (dcrFake P meaningful)] } : Action)) = fun a => a.name := rfl
      rw [hreset]
      apply dcr_or_names_nodup (O := otherNames P) (fn := (dcrFake P meaningful).name) rfl
      have hcur : dcrCur P meaningful = ((dcrNamed P meaningful).map (·.name)).reverse ++ otherNames P :=
        namesAfter_eq _ _
      rw [← hcur, ← namesAfter_eq]
      refine List.nodup_cons.2 ⟨?_, namesAfter_fresh_nodup _ _ hcurN ?_⟩
      · rw [namesAfter_eq, List.mem_append, List.mem_reverse]
        rintro (hin | hin)
        · -- a fake action cannot be named like the fake fluent
          obtain ⟨a', ha', hname⟩ := List.mem_map.1 hin
          obtain ⟨a, k, hak, hk⟩ := assignNames_fresh_candidate _ _
            (by intro x hx; obtain ⟨y, _, rfl⟩ := List.mem_map.1 hx; rfl) a' ha'
          obtain ⟨fa, hfa, heq⟩ := List.mem_map.1 hak
          simp only [Prod.mk.injEq, and_true] at heq
          subst heq
          obtain ⟨d, _, hnew⟩ := dcrFakes_mem hfa
          have hn : fa.name = "dcrm_fake_action" := (dcrNewAction_spec hnew).1
          obtain ⟨j, hj, _⟩ := getFreshName_spec (dcrCur P meaningful) "dcrm_fake_goal" [] none
          have : candidate "dcrm_fake_action" k = candidate "dcrm_fake_goal" j := by
            rw [← hn, ← hk, hname]; exact hj
          exact fake_action_ne_fake_goal k j this
        · exact getFreshName_not_mem (dcrCur P meaningful) "dcrm_fake_goal" [] none hin
      · intro x hx; obtain ⟨y, _, rfl⟩ := List.mem_map.1 hx; rfl
    · rw [hdecl]; exact hP.objects
    · rw [hdecl]
      intro d hdm
      have hdm' : d ∈ P.fluents ++ [({ ref := dcrFake P meaningful, default := some Expr.ff } : FluentDecl)] := hdm
      rcases List.mem_append.1 hdm' with hdm' | hdm'
      · have hw := hP.fluents d hdm'
        unfold wfFluentDecl at hw ⊢
        simp only [Bool.and_eq_true, List.all_eq_true] at hw ⊢
        refine ⟨⟨by rw [tyDeclared_dcrDecls]; exact hw.1.1, fun t ht => by rw [tyDeclared_dcrDecls]; exact hw.1.2 t ht⟩, ?_⟩
        cases hdef : d.default with
        | none => rfl
        | some e =>
          have hw2 := hw.2
          rw [hdef] at hw2
          exact wfExpr_dcrDecls P _ _ e hw2
      · simp only [List.mem_singleton] at hdm'
        subst hdm'
        rfl
    · rw [hdecl]
      intro kv hkv
      exact ⟨wfExpr_dcrDecls P _ _ _ (hP.init kv hkv).1, wfExpr_dcrDecls P _ _ _ (hP.init kv hkv).2⟩
    · rw [hdecl]
      intro a' ha'
      have ha'' : a' ∈ (dcrNamed P meaningful).map (fun a => ({ a with effs := a.effs ++ [resetOf (dcrFake P meaningful)] } : Action)) ++
          assignNames (dcrCur P meaningful) (((dcrFakes simp dnfE (dcrFake P meaningful) args).filterMap
            (fun r => r.join)).map (fun a => (a, true))) := ha'
      rcases List.mem_append.1 ha'' with hmem | hmem
      · obtain ⟨a1, ha1, rfl⟩ := List.mem_map.1 hmem
        obtain ⟨a0, f, hmem0, hsb⟩ := assignNames_mem ha1
        obtain ⟨ab, hab, heq⟩ := List.mem_map.1 hmem0
        simp only [Prod.mk.injEq] at heq
        have hw0 : wfAction (declsOf P) a1 = true := wfAction_sameBody hsb (heq.1 ▸ hmw ab hab)
        have hw1 := (wfAction_iff _ _).1 (wfAction_dcrDecls P (dcrFake P meaningful) hw0)
        rw [wfAction_iff]
        refine ⟨hw1.1, hw1.2.1, ?_⟩
        intro e he
        rcases List.mem_append.1 he with he | he
        · exact hw1.2.2 e he
        · simp only [List.mem_singleton] at he
          subst he
          exact wfEffect_resetOf hfake rfl _
      · obtain ⟨fa, f, hmem0, hsb⟩ := assignNames_mem hmem
        obtain ⟨fa', hfa', heq⟩ := List.mem_map.1 hmem0
        simp only [Prod.mk.injEq] at heq
        obtain ⟨d, hdarg, hnew⟩ := dcrFakes_mem hfa'
        refine wfAction_sameBody hsb (heq.1 ▸ ?_)
        refine dcrNewAction_wf hs hd hnew (wfAction_fakeActionOf hfake rfl) ?_
        rw [hor] at hgoal
        exact wfExpr_dcrDecls P _ _ d (((holds_app _ _ _).1 hgoal).2 d hdarg)
    · rw [hdecl]
      intro g hg
      have hg' : g ∈ [mkFluent (dcrFake P meaningful) []] := hg
      simp only [List.mem_singleton] at hg'
      subst hg'
      unfold wfExpr mkFluent
      rw [holds_app]
      refine ⟨?_, fun e he => (by cases he)⟩
      show ((dcrDecls P (dcrFake P meaningful)).fluents.contains (dcrFake P meaningful) &&
        (([] : List Expr).length == (dcrFake P meaningful).sig.length)) = true
      rw [Bool.and_eq_true]
      exact ⟨List.contains_iff_mem.2 hfake, rfl⟩
    · rw [hdecl]
      intro t ht
      exact wfExpr_dcrDecls P _ _ t (hP.traj t ht)
    · intro m hmm
      have : m ∈ P.metrics := hmm
      rw [hm] at this
      cases this
  · -- conjunctive goal
    refine ⟨?_, hP.objects, hP.fluents, hP.init, ?_, ?_, hP.traj, ?_⟩
    · show (otherNames P ++ (dcrNamed P meaningful).map (·.name)).Nodup
      exact nodup_append_assigned _ _ hcurN
    · intro a' ha'
      obtain ⟨a0, f, hmem0, hsb⟩ := assignNames_mem (show a' ∈ assignNames (otherNames P) (dcrFlagged meaningful) from ha')
      obtain ⟨ab, hab, heq⟩ := List.mem_map.1 hmem0
      simp only [Prod.mk.injEq] at heq
      exact wfAction_sameBody hsb (heq.1 ▸ hmw ab hab)
    · intro g hg
      rcases mem_addGoal (show g ∈ addGoal [] (dnfE (mkAnd P.goals)) from hg) with hg | hg
      · cases hg
      · rw [hg]; exact hgoal
    · intro m hmm
      have : m ∈ P.metrics := hmm
      rw [hm] at this
      cases this

theorem dcr_backOK {simp dnfE : Expr → Expr} {P : Problem} {c : Compiled} (h : dcrCompileN simp dnfE P = some c) :
    backOK P.actions.length c.prob.actions c.back = true := by
  obtain ⟨meaningful, hmean, hcase⟩ := dcrCompileN_cases h
  have hspec := dcrMeaningful_spec hmean
  have hback : ∀ b ∈ meaningful.map (·.2), ∀ i, b = some i → i < P.actions.length := by
    intro b hb i hi
    obtain ⟨ab, hab, rfl⟩ := List.mem_map.1 hb
    obtain ⟨j, _, _, hj, _, hlt, _⟩ := hspec ab hab
    rw [hj] at hi
    simp only [Option.some.injEq] at hi
    omega
  rcases hcase with ⟨args, _, _, rfl⟩ | ⟨_, rfl⟩
  · rw [backOK_iff]
    refine ⟨?_, ?_⟩
    · simp only [dcrOrResult, dcrNamed, dcrFlagged, List.length_append, List.length_map, assignNames_length]
    · intro b hb i hi
      have hb' : b ∈ meaningful.map (·.2) ++ ((dcrFakes simp dnfE (dcrFake P meaningful) args).filterMap
          (fun r => r.join)).map (fun _ => none) := hb
      rcases List.mem_append.1 hb' with hb' | hb'
      · exact hback b hb' i hi
      · obtain ⟨_, _, rfl⟩ := List.mem_map.1 hb'
        cases hi
  · rw [backOK_iff]
    refine ⟨?_, hback⟩
    simp only [dcrNamed, dcrFlagged, List.length_map, assignNames_length]

/-- no disjunction is left in a precondition or goal, provided the DNF walker delivers disjuncts without disjunctions
    on the conditions it is applied to (the conjunction of the preconditions of every action, the conjunction of the
    goals) and the simplifier creates none -/
theorem dcr_target {simp dnfE : Expr → Expr} (hs : SimpDF simp) {P : Problem} {c : Compiled}
    (hpre : ∀ a ∈ P.actions, DisjOut (dnfE (mkAnd a.pre))) (hgoal : DisjOut (dnfE (mkAnd P.goals)))
    (h : dcrCompileN simp dnfE P = some c) : noDisjunctions c.prob = true := by
  obtain ⟨meaningful, hmean, hcase⟩ := dcrCompileN_cases h
  have hspec := dcrMeaningful_spec hmean
  have hmd : ∀ ab ∈ meaningful, ∀ x ∈ ab.1.pre, disjFree x = true := by
    intro ab hab
    obtain ⟨i, a, d, _, hget, _, hdm, hnew⟩ := hspec ab hab
    exact dcrNewAction_disjFree hs hnew (hpre a (List.mem_of_getElem? hget) d hdm)
  have hnamed : ∀ a' ∈ dcrNamed P meaningful, ∀ x ∈ a'.pre, disjFree x = true := by
    intro a' ha' x hx
    obtain ⟨a0, f, hmem0, hsb⟩ := assignNames_mem ha'
    obtain ⟨ab, hab, heq⟩ := List.mem_map.1 hmem0
    simp only [Prod.mk.injEq] at heq
    rw [hsb.2.1, ← heq.1] at hx
    exact hmd ab hab x hx
  simp only [noDisjunctions, Bool.and_eq_true, List.all_eq_true]
  rcases hcase with ⟨args, hor, _, rfl⟩ | ⟨hne, rfl⟩
  · refine ⟨?_, ?_⟩
    · intro a' ha' x hx
      have ha'' : a' ∈ (dcrNamed P meaningful).map (fun a => ({ a with effs := a.effs ++ [resetOf (dcrFake P meaningful)] } : Action)) ++
          assignNames (dcrCur P meaningful) (((dcrFakes simp dnfE (dcrFake P meaningful) args).filterMap
            (fun r => r.join)).map (fun a => (a, true))) := ha'
      rcases List.mem_append.1 ha'' with hmem | hmem
      · obtain ⟨a1, ha1, rfl⟩ := List.mem_map.1 hmem
        exact hnamed a1 ha1 x hx
      · obtain ⟨fa, f, hmem0, hsb⟩ := assignNames_mem hmem
        obtain ⟨fa', hfa', heq⟩ := List.mem_map.1 hmem0
        simp only [Prod.mk.injEq] at heq
        obtain ⟨d, hdarg, hnew⟩ := dcrFakes_mem hfa'
        rw [hsb.2.1, ← heq.1] at hx
        refine dcrNewAction_disjFree hs hnew (hgoal d ?_) x hx
        rw [hor]; exact hdarg
    · intro g hg
      have hg' : g ∈ [mkFluent (dcrFake P meaningful) []] := hg
      simp only [List.mem_singleton] at hg'
      subst hg'
      rfl
  · refine ⟨fun a' ha' x hx => hnamed a' ha' x hx, ?_⟩
    intro g hg
    rcases mem_addGoal (show g ∈ addGoal [] (dnfE (mkAnd P.goals)) from hg) with hg | hg
    · cases hg
    · rw [hg]
      apply hgoal
      unfold disjuncts
      split
      · rename_i args heq; exact absurd heq (hne args)
      · simp

end UPVerif.Compile
