import UPVerif.Lemmas.FromPddlEffDefs
/-!
Helper lemmas for C21, effects: the leaves (atoms, negated atoms, numeric assignments) and the side condition `effOK`.
-/
namespace UPVerif.FromPddl
open UPVerif UPVerif.Expr UPVerif.Pddl

/-! ### the side condition on effects (part of the statement of Props/C21.lean) -/

mutual
/-- in an effect: conditions and values satisfy `gdOK` / `fexpOK`, the variables of a `forall` have pairwise different
    names, and no conjunction of effects loses a conjunct in the external parser (finding D-C21c) -/
def effOK (fl : List FluentRef) (C : PCtx) : Sexp → Bool
  | .atom _ => true
  | .list xs => effOKL fl C xs
def effOKL (fl : List FluentRef) (C : PCtx) : List Sexp → Bool
  | [] => true
  | .list _ :: _ => true
  | .atom h :: rest =>
    if h == "and" then
      effOKs fl C rest && (match astCEffects C rest with
        | some φs => decide φs.Nodup
        | none => true)
    else if h == "when" then
      match rest with
      | [c, e] => gdOK fl C c && effOK fl C e
      | _ => true
    else if h == "forall" then
      match rest with
      | [.list vl, e] => varsNodup vl && effOK fl C e
      | _ => true
    else
      match assignOp? h with
      | some _ => fexpOKs C rest
      | none => true
def effOKs (fl : List FluentRef) (C : PCtx) : List Sexp → Bool
  | [] => true
  | x :: xs => effOK fl C x && effOKs fl C xs
end

theorem effOKs_cons {fl : List FluentRef} {C : PCtx} {x : Sexp} {xs : List Sexp} (h : effOKs fl C (x :: xs) = true) :
    effOK fl C x = true ∧ effOKs fl C xs = true := by
  rw [effOKs] at h; simpa using h

/-! ### a fluent applied to terms: both readers build the same node -/

section
variable {E : REnv} {CE : CEnv} {ps : List (String × Ty)} (ag : EnvAgree E CE ps) (nm : NamesOK E) (C : PCtx)
include ag nm

theorem app_agree {sc qv : List Var} (hs : ScopeAgree sc qv) (h : String) (rest : List Sexp) (τs : List Term) (e e' : Expr)
    (hres : isReserved h = false) (hτs : astTerms C rest = some τs)
    (hU : readList E sc (.atom h :: rest) = some e) (hQ : convFluent CE ps qv h τs = some e') : e = e' := by
  have hres' : ¬ isReserved h = true := by simp [hres]
  have hop : isOperator h = false := by
    cases ho : isOperator h with
    | false => rfl
    | true => exact absurd (isReserved_of_isOperator ho) hres'
  have hqq : (h == "exists" || h == "forall") = false := by
    cases hc : (h == "exists" || h == "forall") with
    | false => rfl
    | true => exact absurd (isReserved_quant hc) hres'
  have hneg : (h == "-" && rest.length == 1) = false := by
    have : (h == "-") = false := by
      cases hc : (h == "-") with
      | false => rfl
      | true =>
        have : h = "-" := by simpa using hc
        subst this
        revert hres; decide
    simp [this]
  obtain ⟨f, hf, _⟩ := convFluent_inv ag hQ
  cases ht : isTrajOp h with
  | true =>
    rw [readList.eq_def] at hU
    simp [hneg, hop, hqq, ht] at hU
  | false =>
    rw [readList_fluent E sc h rest f hneg hop hqq ht hf, Option.bind_eq_some_iff] at hU
    obtain ⟨es, hes, hif⟩ := hU
    have := fluent_app_agree ag nm C hs h rest τs es e' f hf hes hτs hQ
    split at hif
    · rw [← Option.some.inj hif, this]
    · cases hif

/-- `f_head`: the target of a numeric effect -/
theorem fhead_agree {sc qv : List Var} (hs : ScopeAgree sc qv) (x : Sexp) (φ : Form) (e e' : Expr)
    (hU : readExpr E sc x = some e) (hA : astFhead C x = some φ) (hQ : convExpr CE ps qv φ = some e') : e = e' := by
  cases x with
  | atom s =>
    rw [astFhead] at hA
    split at hA
    · cases hA
    · rename_i hc
      simp only [Bool.or_eq_true, not_or, Bool.not_eq_true, Option.isSome_eq_false_iff, Option.isNone_iff_eq_none] at hc
      cases hA
      rw [convExpr] at hQ
      obtain ⟨f, hf, hQ'⟩ := convFluent_inv ag hQ
      simp only [convTerms, Option.bind_some] at hQ'
      rw [readExpr] at hU
      split at hQ'
      · rename_i hlen
        have hsig : f.sig = [] := by
          have h0 : (0 : Nat) = f.sig.length := by simpa using hlen
          exact List.length_eq_zero_iff.1 h0.symm
        simp only [readAtom, hc.2, hf, hsig, List.isEmpty_nil, if_true] at hU
        rw [← Option.some.inj hU, ← Option.some.inj hQ']
      · cases hQ'
  | list xs =>
    match xs, hA, hU with
    | .atom h :: rest, hA, hU =>
      rw [astFhead] at hA
      split at hA
      · cases hA
      · rename_i hres
        rw [Option.map_eq_some_iff] at hA
        obtain ⟨τs, hτs, rfl⟩ := hA
        rw [convExpr] at hQ
        rw [readExpr] at hU
        exact app_agree ag nm C hs h rest τs e e' (by simpa using hres) hτs hU hQ
    | [], hA, _ => simp [astFhead] at hA
    | .list _ :: _, hA, _ => simp [astFhead] at hA

end

/-! ### `Effect.__init__` on related components -/

theorem mkEffect_rel {f : Expr} {v v' c c' : Expr} (k : EffKind) (vars : List Var) (hv : FRel v v') (hc : GdRel c c') :
    EffRel (Pddl.mkEffect f v c k vars) (Pddl.mkEffect f v' c' k vars) where
  fluent := rfl
  value := hv
  cond := hc
  kind := rfl
  forall_ := by
    unfold Pddl.mkEffect
    simp only
    congr 1
    apply List.filter_congr
    intro x _
    have h1 := hv.fv x
    have h2 := hc.fv x
    apply Bool.eq_iff_iff.2
    simp only [List.contains_iff_mem, List.mem_append]
    rw [h1, h2]

end UPVerif.FromPddl
