import UPVerif.Lemmas.PlanConvLemmas
/-!
Helper lemmas for the separation clauses of `Props/C26.lean`: when is "distinct happenings are at least
ε apart" guaranteed?

Every event time is a *base time* — a member of the set `times` of `extract_epsilon` — possibly shifted by
`+ε` (left-open interval) or `-ε` (right-open interval).  If distinct base times are at least `3ε` apart
the events are `ε`-separated (`separated_of_bases`).  The epsilon that `_convert_to_stn` derives from the
plan when `problem.epsilon` is `None` is at most a tenth of the smallest gap between base times
(`minGap_spec`), so it always qualifies (`auto_gap`).
-/
namespace UPVerif.PlanConv
open UPVerif.STN

/-! ### sets as lists -/

theorem mem_setAdd (x y : Rat) (l : List Rat) : x ∈ setAdd y l ↔ x = y ∨ x ∈ l := by
  unfold setAdd
  split
  · rename_i h
    constructor
    · exact Or.inr
    · rintro (rfl | h')
      · exact h
      · exact h'
  · simp only [List.mem_append, List.mem_singleton]
    constructor
    · rintro (h | h)
      · exact Or.inr h
      · exact Or.inl h
    · rintro (h | h)
      · exact Or.inr h
      · exact Or.inl h

/-- membership in a fold whose step adds the elements `g a` to the accumulated set -/
theorem mem_foldl_step {β : Type} (step : List Rat → β → List Rat) (g : β → List Rat)
    (hstep : ∀ acc a x, x ∈ step acc a ↔ x ∈ acc ∨ x ∈ g a) :
    ∀ (l : List β) (init : List Rat) (x : Rat), x ∈ l.foldl step init ↔ x ∈ init ∨ ∃ a ∈ l, x ∈ g a := by
  intro l
  induction l with
  | nil => intro init x; simp
  | cons a r ih =>
    intro init x
    rw [List.foldl_cons, ih, hstep]
    constructor
    · rintro ((h | h) | ⟨a', ha', h⟩)
      · exact Or.inl h
      · exact Or.inr ⟨a, List.mem_cons_self .., h⟩
      · exact Or.inr ⟨a', List.mem_cons_of_mem _ ha', h⟩
    · rintro (h | ⟨a', ha', h⟩)
      · exact Or.inl (Or.inl h)
      · rcases List.mem_cons.mp ha' with rfl | ha'
        · exact Or.inl (Or.inr h)
        · exact Or.inr ⟨a', ha', h⟩

/-- the two values one condition interval contributes to `_extract_action_timings` -/
def condTimes (start dur eps : Rat) (iv : Interval) : List Rat :=
  [absoluteTime iv.lower start dur + (if iv.lopen then eps else 0),
   absoluteTime iv.upper start dur + (if iv.ropen then -eps else 0)]

theorem mem_extract (sh : Shape) (start dur eps x : Rat) :
    x ∈ extractActionTimings sh start dur eps ↔
      (∃ t ∈ sh.effs, x = absoluteTime t start dur) ∨ ∃ iv ∈ sh.conds, x ∈ condTimes start dur eps iv := by
  unfold extractActionTimings
  simp only
  rw [mem_foldl_step _ (condTimes start dur eps)]
  · rw [mem_foldl_step _ (fun t => [absoluteTime t start dur])]
    · simp
    · intro acc a y
      simp only [mem_setAdd, List.mem_singleton]
      constructor
      · rintro (h | h)
        · exact Or.inr h
        · exact Or.inl h
      · rintro (h | h)
        · exact Or.inr h
        · exact Or.inl h
  · intro acc a y
    simp only [mem_setAdd, condTimes, List.mem_cons, List.not_mem_nil, or_false]
    constructor
    · rintro (h | h | h)
      · exact Or.inr (Or.inr h)
      · exact Or.inr (Or.inl h)
      · exact Or.inl h
    · rintro (h | h | h)
      · exact Or.inr (Or.inr h)
      · exact Or.inr (Or.inl h)
      · exact Or.inl h

/-- every timing extracted with ε is a timing extracted with 0, possibly shifted by `+ε` or `-ε` -/
theorem extract_base (sh : Shape) (start dur eps x : Rat) (hx : x ∈ extractActionTimings sh start dur eps) :
    ∃ b ∈ extractActionTimings sh start dur 0, x = b ∨ x = b + eps ∨ x = b - eps := by
  rcases (mem_extract sh start dur eps x).mp hx with ⟨t, ht, rfl⟩ | ⟨iv, hiv, h⟩
  · exact ⟨_, (mem_extract sh start dur 0 _).mpr (Or.inl ⟨t, ht, rfl⟩), Or.inl rfl⟩
  · simp only [condTimes, List.mem_cons, List.not_mem_nil, or_false] at h
    rcases h with rfl | rfl
    · refine ⟨absoluteTime iv.lower start dur + (if iv.lopen then (0 : Rat) else 0),
        (mem_extract sh start dur 0 _).mpr (Or.inr ⟨iv, hiv, by simp [condTimes]⟩), ?_⟩
      cases iv.lopen <;> simp <;> grind
    · refine ⟨absoluteTime iv.upper start dur + (if iv.ropen then (-0 : Rat) else 0),
        (mem_extract sh start dur 0 _).mpr (Or.inr ⟨iv, hiv, by simp [condTimes]⟩), ?_⟩
      cases iv.ropen <;> simp <;> grind

/-- what one plan entry adds to `times` -/
def entryTimes (e : Entry) : List Rat :=
  e.start :: (match e.dur with
    | none => []
    | some (d, sh) => (e.start + d) :: extractActionTimings sh e.start d 0)

theorem mem_planTimes (acc : List Rat) (e : Entry) (x : Rat) :
    x ∈ planTimes acc e ↔ x ∈ acc ∨ x ∈ entryTimes e := by
  unfold planTimes entryTimes
  cases hd : e.dur with
  | none =>
    simp only [mem_setAdd, List.mem_cons, List.not_mem_nil, or_false]
    constructor
    · rintro (h | h)
      · exact Or.inr h
      · exact Or.inl h
    · rintro (h | h)
      · exact Or.inr h
      · exact Or.inl h
  | some p =>
    obtain ⟨d, sh⟩ := p
    simp only
    rw [mem_foldl_step _ (fun y => [y])]
    · simp only [mem_setAdd, List.mem_cons, List.not_mem_nil, or_false]
      constructor
      · rintro ((h | h | h) | ⟨a, ha, rfl⟩)
        · exact Or.inr (Or.inr (Or.inl h))
        · exact Or.inr (Or.inl h)
        · exact Or.inl h
        · exact Or.inr (Or.inr (Or.inr ha))
      · rintro (h | h | h | h)
        · exact Or.inl (Or.inr (Or.inr h))
        · exact Or.inl (Or.inr (Or.inl h))
        · exact Or.inl (Or.inl h)
        · exact Or.inr ⟨x, h, rfl⟩
    · intro acc' a y
      simp only [mem_setAdd, List.mem_singleton]
      constructor
      · rintro (h | h)
        · exact Or.inr h
        · exact Or.inl h
      · rintro (h | h)
        · exact Or.inr h
        · exact Or.inl h

theorem mem_epsilonTimes (inp : Input) (x : Rat) :
    x ∈ epsilonTimes inp ↔
      x = 0 ∨ (∃ iv ∈ inp.mock.conds, x = iv.lower.delay ∨ x = iv.upper.delay) ∨
      (∃ t ∈ inp.mock.effs, x = t.delay) ∨ ∃ e ∈ inp.plan, x ∈ entryTimes e := by
  unfold epsilonTimes
  simp only
  rw [mem_foldl_step _ entryTimes (fun acc a y => mem_planTimes acc a y)]
  rw [mem_foldl_step _ (fun t : Timing => [t.delay])]
  · rw [mem_foldl_step _ (fun iv : Interval => [iv.lower.delay, iv.upper.delay])]
    · simp only [List.mem_cons, List.not_mem_nil, or_false]
      constructor
      · rintro (((h | h) | h) | h)
        · exact Or.inl h
        · exact Or.inr (Or.inl h)
        · exact Or.inr (Or.inr (Or.inl h))
        · exact Or.inr (Or.inr (Or.inr h))
      · rintro (h | h | h | h)
        · exact Or.inl (Or.inl (Or.inl h))
        · exact Or.inl (Or.inl (Or.inr h))
        · exact Or.inl (Or.inr h)
        · exact Or.inr h
    · intro acc a y
      simp only [mem_setAdd, List.mem_cons, List.not_mem_nil, or_false]
      constructor
      · rintro (h | h | h)
        · exact Or.inr (Or.inr h)
        · exact Or.inr (Or.inl h)
        · exact Or.inl h
      · rintro (h | h | h)
        · exact Or.inr (Or.inr h)
        · exact Or.inr (Or.inl h)
        · exact Or.inl h
  · intro acc a y
    simp only [mem_setAdd, List.mem_singleton]
    constructor
    · rintro (h | h)
      · exact Or.inr h
      · exact Or.inl h
    · rintro (h | h)
      · exact Or.inr h
      · exact Or.inl h

/-! ### base times of the events -/

/-- the timed effects and goals of the problem are relative to GLOBAL_START (`add_timed_goal` /
`add_timed_effect` reject `GLOBAL_END - k`, and a `GLOBAL_END` timing yields no event at all) -/
def MockFromStart (inp : Input) : Prop :=
  (∀ t ∈ inp.mock.effs, t.fromStart = true) ∧
  ∀ iv ∈ inp.mock.conds, iv.lower.fromStart = true ∧ iv.upper.fromStart = true

theorem mem_planEvents_time (eps : Rat) : ∀ (r : List Entry) (i : Nat) (x : Event), x ∈ planEvents eps i r →
    ∃ e ∈ r, (e.dur = none ∧ x.time = e.start) ∨
      ∃ d sh, e.dur = some (d, sh) ∧ x.time ∈ extractActionTimings sh e.start d eps := by
  intro r
  induction r with
  | nil => intro i x h; simp [planEvents] at h
  | cons e r ih =>
    intro i x h
    simp only [planEvents, List.mem_append] at h
    rcases h with h | h
    · refine ⟨e, List.mem_cons_self .., ?_⟩
      unfold entryEvents at h
      split at h
      · rename_i hn
        simp only [List.mem_singleton] at h
        subst h
        exact Or.inl ⟨hn, rfl⟩
      · rename_i d sh hd
        unfold durativeEvents at h
        simp only [List.mem_map, List.mem_filter] at h
        obtain ⟨t, ⟨ht, _⟩, rfl⟩ := h
        exact Or.inr ⟨d, sh, hd, ht⟩
    · obtain ⟨e', he', h'⟩ := ih (i + 1) x h
      exact ⟨e', List.mem_cons_of_mem _ he', h'⟩

/-- every event time is a member of `times`, possibly shifted by `+ε` or `-ε` -/
theorem event_base (inp : Input) (hm : MockFromStart inp) (x : Event) (hx : x ∈ allEvents inp) :
    ∃ b ∈ epsilonTimes inp, x.time = b ∨ x.time = b + epsilonOf inp ∨ x.time = b - epsilonOf inp := by
  unfold allEvents at hx
  rcases List.mem_append.mp hx with h | h
  · unfold durativeEvents at h
    simp only [List.mem_map, List.mem_filter] at h
    obtain ⟨t, ⟨ht, _⟩, rfl⟩ := h
    simp only
    rcases (mem_extract _ _ _ _ _).mp ht with ⟨tm, htm, rfl⟩ | ⟨iv, hiv, h'⟩
    · refine ⟨tm.delay, (mem_epsilonTimes inp _).mpr (Or.inr (Or.inr (Or.inl ⟨tm, htm, rfl⟩))), Or.inl ?_⟩
      simp only [absoluteTime, hm.1 tm htm, if_true]
      grind
    · obtain ⟨hl, hu⟩ := hm.2 iv hiv
      simp only [condTimes, List.mem_cons, List.not_mem_nil, or_false] at h'
      rcases h' with rfl | rfl
      · refine ⟨iv.lower.delay, (mem_epsilonTimes inp _).mpr (Or.inr (Or.inl ⟨iv, hiv, Or.inl rfl⟩)), ?_⟩
        simp only [absoluteTime, hl, if_true]
        cases iv.lopen <;> simp <;> grind
      · refine ⟨iv.upper.delay, (mem_epsilonTimes inp _).mpr (Or.inr (Or.inl ⟨iv, hiv, Or.inr rfl⟩)), ?_⟩
        simp only [absoluteTime, hu, if_true]
        cases iv.ropen <;> simp <;> grind
  · obtain ⟨e, he, h'⟩ := mem_planEvents_time _ _ _ _ h
    rcases h' with ⟨_, ht⟩ | ⟨d, sh, hd, ht⟩
    · refine ⟨e.start, (mem_epsilonTimes inp _).mpr (Or.inr (Or.inr (Or.inr ⟨e, he, ?_⟩))), Or.inl ht⟩
      simp [entryTimes]
    · obtain ⟨b, hb, hxb⟩ := extract_base sh e.start d _ _ ht
      refine ⟨b, (mem_epsilonTimes inp _).mpr (Or.inr (Or.inr (Or.inr ⟨e, he, ?_⟩))), hxb⟩
      simp [entryTimes, hd, hb]

/-- base times at least `3ε` apart ⇒ events `ε`-separated -/
theorem separated_of_bases (inp : Input) (hm : MockFromStart inp)
    (hg : ∀ b1 ∈ epsilonTimes inp, ∀ b2 ∈ epsilonTimes inp, b1 < b2 → 3 * epsilonOf inp ≤ b2 - b1) :
    Separated (epsilonOf inp) (seqEvents inp) := by
  intro e1 h1 e2 h2 hlt
  obtain ⟨b1, hb1, t1⟩ := event_base inp hm e1 ((mem_seqEvents inp e1).mp h1)
  obtain ⟨b2, hb2, t2⟩ := event_base inp hm e2 ((mem_seqEvents inp e2).mp h2)
  by_cases hb : b1 < b2
  · have := hg b1 hb1 b2 hb2 hb
    rcases t1 with t1 | t1 | t1 <;> rcases t2 with t2 | t2 | t2 <;> grind
  · by_cases hb' : b2 < b1
    · have := hg b2 hb2 b1 hb1 hb'
      rcases t1 with t1 | t1 | t1 <;> rcases t2 with t2 | t2 | t2 <;> grind
    · have heq : b1 = b2 := by grind
      rcases t1 with t1 | t1 | t1 <;> rcases t2 with t2 | t2 | t2 <;> grind

/-! ### the epsilon derived from the plan -/

theorem mem_insertRat (x y : Rat) : ∀ (l : List Rat), y ∈ insertRat x l ↔ y = x ∨ y ∈ l := by
  intro l
  induction l with
  | nil => simp [insertRat]
  | cons z r ih =>
    simp only [insertRat]
    split
    · simp
    · simp only [List.mem_cons, ih]
      constructor
      · rintro (h | h | h)
        · exact Or.inr (Or.inl h)
        · exact Or.inl h
        · exact Or.inr (Or.inr h)
      · rintro (h | h | h)
        · exact Or.inr (Or.inl h)
        · exact Or.inl h
        · exact Or.inr (Or.inr h)

theorem mem_sortRat (l : List Rat) (y : Rat) : y ∈ sortRat l ↔ y ∈ l := by
  unfold sortRat
  have : ∀ (l acc : List Rat), y ∈ l.foldl (fun acc x => insertRat x acc) acc ↔ y ∈ l ∨ y ∈ acc := by
    intro l
    induction l with
    | nil => intro acc; simp
    | cons x r ih =>
      intro acc
      simp only [List.foldl_cons, ih, mem_insertRat, List.mem_cons]
      constructor
      · rintro (h | h | h)
        · exact Or.inl (Or.inr h)
        · exact Or.inl (Or.inl h)
        · exact Or.inr h
      · rintro ((h | h) | h)
        · exact Or.inr (Or.inl h)
        · exact Or.inl h
        · exact Or.inr (Or.inr h)
  simpa using this l []

theorem pairwise_insertRat (x : Rat) : ∀ (l : List Rat), l.Pairwise (· ≤ ·) → (insertRat x l).Pairwise (· ≤ ·) := by
  intro l
  induction l with
  | nil => intro _; simp [insertRat]
  | cons z r ih =>
    intro h
    obtain ⟨hz, hr⟩ := List.pairwise_cons.mp h
    simp only [insertRat]
    split
    · rename_i hlt
      refine List.pairwise_cons.mpr ⟨?_, h⟩
      intro y hy
      rcases List.mem_cons.mp hy with rfl | hy
      · exact Rat.le_of_lt hlt
      · have := hz y hy; grind
    · rename_i hnl
      refine List.pairwise_cons.mpr ⟨?_, ih hr⟩
      intro y hy
      rcases (mem_insertRat x y r).mp hy with rfl | hy
      · exact Rat.not_lt.mp hnl
      · exact hz y hy

theorem sortRat_sorted (l : List Rat) : (sortRat l).Pairwise (· ≤ ·) := by
  unfold sortRat
  have : ∀ (l acc : List Rat), acc.Pairwise (· ≤ ·) →
      (l.foldl (fun acc x => insertRat x acc) acc).Pairwise (· ≤ ·) := by
    intro l
    induction l with
    | nil => intro acc h; simpa using h
    | cons x r ih => intro acc h; exact ih _ (pairwise_insertRat x acc h)
  exact this l [] List.Pairwise.nil

/-- the loop of `extract_epsilon` over a sorted list returns a value below the initial one and below the
distance of any two different members -/
theorem minGap_spec : ∀ (r : List Rat) (e prev : Rat), (prev :: r).Pairwise (· ≤ ·) →
    minGap e prev r ≤ e ∧ ∀ x ∈ prev :: r, ∀ y ∈ prev :: r, x < y → minGap e prev r ≤ y - x := by
  intro r
  induction r with
  | nil =>
    intro e prev _
    refine ⟨by simp [minGap], ?_⟩
    intro x hx y hy hlt
    simp only [List.mem_singleton] at hx hy
    subst hx hy
    exact (Rat.lt_irrefl hlt).elim
  | cons cur r ih =>
    intro e prev h
    obtain ⟨hp, hr⟩ := List.pairwise_cons.mp h
    obtain ⟨i1, i2⟩ := ih (min e (cur - prev)) cur hr
    have hpc : prev ≤ cur := hp cur (List.mem_cons_self ..)
    simp only [minGap]
    refine ⟨by grind, ?_⟩
    intro x hx y hy hlt
    rcases List.mem_cons.mp hx with hxp | hx'
    · rcases List.mem_cons.mp hy with hyp | hy'
      · rw [hxp, hyp] at hlt; exact (Rat.lt_irrefl hlt).elim
      · by_cases hyc : cur < y
        · have := i2 cur (List.mem_cons_self ..) y hy' hyc
          grind
        · have h1 : cur ≤ y := by
            rcases List.mem_cons.mp hy' with hyc' | hy''
            · rw [hyc']; exact Rat.le_refl
            · exact (List.pairwise_cons.mp hr).1 y hy''
          grind
    · rcases List.mem_cons.mp hy with hyp | hy'
      · have := hp x hx'
        grind
      · exact i2 x hx' y hy' hlt

theorem le_getLast : ∀ (l : List Rat) (d : Rat), l.Pairwise (· ≤ ·) → ∀ x ∈ l, x ≤ l.getLast?.getD d := by
  intro l
  induction l with
  | nil => intro d _ x hx; cases hx
  | cons a r ih =>
    intro d h x hx
    obtain ⟨ha, hr⟩ := List.pairwise_cons.mp h
    cases r with
    | nil =>
      simp only [List.mem_singleton] at hx
      subst hx
      simp
    | cons b r' =>
      have hl : (a :: b :: r').getLast?.getD d = (b :: r').getLast?.getD d := by
        simp [List.getLast?_cons_cons]
      rw [hl]
      rcases List.mem_cons.mp hx with rfl | hx
      · have h1 := ha b (List.mem_cons_self ..)
        have h2 := ih d hr b (List.mem_cons_self ..)
        grind
      · exact ih d hr x hx

theorem eps_bound (g d : Rat) (h : g ≤ d) (hd : 0 < d) : 3 * min (g / 10) ((1 : Rat) / 1000) ≤ d := by
  have h1 : min (g / 10) ((1 : Rat) / 1000) ≤ g / 10 := by grind
  by_cases hg : 0 ≤ g
  · grind
  · grind

/-- when `problem.epsilon` is `None`, distinct base times are at least `3ε` apart for the ε the conversion
derives (a tenth of the smallest gap, capped at 1/1000) -/
theorem auto_gap (inp : Input) (heps : inp.eps = none) (hnn : ∀ b ∈ epsilonTimes inp, 0 ≤ b) :
    ∀ b1 ∈ epsilonTimes inp, ∀ b2 ∈ epsilonTimes inp, b1 < b2 → 3 * epsilonOf inp ≤ b2 - b1 := by
  intro b1 hb1 b2 hb2 hlt
  have hsorted := sortRat_sorted (epsilonTimes inp)
  have hm1 := (mem_sortRat (epsilonTimes inp) b1).mpr hb1
  have hm2 := (mem_sortRat (epsilonTimes inp) b2).mpr hb2
  unfold epsilonOf
  rw [heps]
  simp only
  unfold extractEpsilon
  cases hS : sortRat (epsilonTimes inp) with
  | nil => rw [hS] at hm1; cases hm1
  | cons first rest =>
    rw [hS] at hsorted hm1 hm2
    simp only
    split
    · rename_i hl
      have h1 := le_getLast _ first hsorted b1 hm1
      have h2 := le_getLast _ first hsorted b2 hm2
      have := hnn b1 hb1
      have := hnn b2 hb2
      split at hl
      · grind
      · cases hl
    · rename_i e he
      split at he
      · cases he
      · cases he
        have := (minGap_spec rest ((first :: rest).getLast?.getD first) first hsorted).2 b1 hm1 b2 hm2 hlt
        exact eps_bound _ _ this (by grind)

end UPVerif.PlanConv
