import UPVerif.Lemmas.PlanConvLemmas
import UPVerif.Props.C25
/-!
Helper lemmas for the back-conversion clauses of `Props/C26.lean`:

* keys of the insertion-ordered dictionaries (`assign` / `setDefault` never duplicate a key);
* `NetWF`: while a `DeltaSTN` is consistent its `_distances` has no duplicate key and only keys that were
  inserted (an invariant of `add`, through the relaxation loop);
* the nodes of the generated constraints are exactly the plan's nodes;
* `actionMap` / `backEntries` / the final stable sort of `_convert_to_time_triggered`.
-/
namespace UPVerif.PlanConv
open UPVerif.STN

variable {Ev : Type} [DecidableEq Ev] {α : Type}

/-! ### keys -/

def keys (l : List (Ev × α)) : List Ev := l.map (·.1)

theorem lookup_none_iff (k : Ev) : ∀ (l : List (Ev × α)), lookup k l = none ↔ k ∉ keys l := by
  intro l
  induction l with
  | nil => simp [lookup, keys]
  | cons p r ih =>
    obtain ⟨a, v⟩ := p
    simp only [lookup, keys, List.map_cons, List.mem_cons, not_or]
    by_cases h : a = k
    · simp [h]
    · simp only [h, if_false]
      have : ¬ k = a := fun e => h e.symm
      simp only [keys] at ih
      simp [ih, this]

theorem lookup_mem (k : Ev) (v : α) : ∀ (l : List (Ev × α)), lookup k l = some v → (k, v) ∈ l := by
  intro l
  induction l with
  | nil => intro h; simp [lookup] at h
  | cons p r ih =>
    obtain ⟨a, w⟩ := p
    intro h
    simp only [lookup] at h
    split at h
    · rename_i hk; cases h; subst hk; exact List.mem_cons_self ..
    · exact List.mem_cons_of_mem _ (ih h)

theorem lookup_of_mem_nodup (k : Ev) (v : α) : ∀ (l : List (Ev × α)), (keys l).Nodup → (k, v) ∈ l →
    lookup k l = some v := by
  intro l
  induction l with
  | nil => intro _ h; cases h
  | cons p r ih =>
    obtain ⟨a, w⟩ := p
    intro hn h
    simp only [keys, List.map_cons, List.nodup_cons] at hn
    simp only [lookup]
    rcases List.mem_cons.mp h with h | h
    · cases h; simp
    · have : a ≠ k := by
        intro e; subst e
        exact hn.1 (List.mem_map.mpr ⟨(a, v), h, rfl⟩)
      simp only [this, if_false]
      exact ih hn.2 h

theorem keys_assign (k : Ev) (v : α) : ∀ (l : List (Ev × α)),
    keys (assign k v l) = if k ∈ keys l then keys l else keys l ++ [k] := by
  intro l
  induction l with
  | nil => simp [assign, keys]
  | cons p r ih =>
    obtain ⟨a, w⟩ := p
    simp only [assign]
    by_cases h : a = k
    · subst h; simp [keys]
    · have hne : ¬ k = a := fun e => h e.symm
      simp only [h, if_false, keys, List.map_cons, List.mem_cons, hne, false_or]
      simp only [keys] at ih
      rw [ih]
      split <;> simp_all

theorem nodup_keys_assign (k : Ev) (v : α) (l : List (Ev × α)) (h : (keys l).Nodup) :
    (keys (assign k v l)).Nodup := by
  rw [keys_assign]
  split
  · exact h
  · rename_i hk
    refine List.nodup_append.mpr ⟨h, by simp, ?_⟩
    intro a ha b hb
    simp only [List.mem_singleton] at hb
    subst hb
    intro e; subst e; exact hk ha

theorem mem_keys_assign (k k' : Ev) (v : α) (l : List (Ev × α)) :
    k' ∈ keys (assign k v l) ↔ k' = k ∨ k' ∈ keys l := by
  rw [keys_assign]
  split
  · rename_i hk
    constructor
    · exact Or.inr
    · rintro (rfl | h)
      · exact hk
      · exact h
  · simp only [List.mem_append, List.mem_singleton]
    constructor
    · rintro (h | h)
      · exact Or.inr h
      · exact Or.inl h
    · rintro (h | h)
      · exact Or.inr h
      · exact Or.inl h

theorem nodup_keys_setDefault (k : Ev) (v : α) (l : List (Ev × α)) (h : (keys l).Nodup) :
    (keys (setDefault k v l)).Nodup := by
  unfold setDefault
  split
  · exact h
  · exact nodup_keys_assign k v l h

theorem mem_keys_setDefault (k k' : Ev) (v : α) (l : List (Ev × α)) :
    k' ∈ keys (setDefault k v l) → k' = k ∨ k' ∈ keys l := by
  unfold setDefault
  split
  · exact Or.inr
  · exact (mem_keys_assign k k' v l).mp

theorem hasKey_iff (d : Dist Ev) (v : Ev) : HasKey d v ↔ v ∈ keys d := by
  unfold HasKey
  constructor
  · intro h
    by_cases hk : v ∈ keys d
    · exact hk
    · rw [(lookup_none_iff v d).mpr hk] at h; cases h
  · intro h
    cases hl : lookup v d with
    | none => exact ((lookup_none_iff v d).mp hl h).elim
    | some _ => rfl

/-! ### well-formedness of a consistent network -/

/-- while consistent: `_distances` has no duplicate key, only keys in `A`, and every stored edge ends in `A` -/
def NetWF (A : Ev → Prop) (s : Net Ev) : Prop :=
  s.sat = true → (keys s.dist).Nodup ∧ (∀ k ∈ keys s.dist, A k) ∧ ∀ u v w, (v, w) ∈ nbrs s.cons u → A v

theorem netWF_empty (A : Ev → Prop) : NetWF A (empty : Net Ev) := by
  intro _
  simp [empty, keys, nbrs, lookup]

theorem add_wf (A : Ev → Prop) (fuel : Nat) (s s' : Net Ev) (x y : Ev) (b : Rat)
    (hwf : NetWF A s) (hx : A x) (hy : A y) (h : add fuel s x y b = some s') : NetWF A s' := by
  unfold add at h
  cases hsat : s.sat with
  | false => simp only [hsat] at h; cases h; intro hs; rw [hsat] at hs; cases hs
  | true =>
    simp only [hsat, if_true] at h
    obtain ⟨hn, hk, he⟩ := hwf hsat
    have hn1 : (keys (setDefault y 0 (setDefault x 0 s.dist))).Nodup :=
      nodup_keys_setDefault _ _ _ (nodup_keys_setDefault _ _ _ hn)
    have hk1 : ∀ k ∈ keys (setDefault y 0 (setDefault x 0 s.dist)), A k := by
      intro k hkm
      rcases mem_keys_setDefault _ _ _ _ hkm with rfl | hkm
      · exact hy
      · rcases mem_keys_setDefault _ _ _ _ hkm with rfl | hkm
        · exact hx
        · exact hk k hkm
    have he1 : ∀ u v w, (v, w) ∈ nbrs (setDefault y [] s.cons) u → A v := by
      intro u v w hm
      rw [nbrs_setDefault] at hm
      exact he u v w hm
    split at h
    · cases h; intro _; exact ⟨hn1, hk1, he1⟩
    · have he2 : ∀ u v w, (v, w) ∈ nbrs (assign x ((y, b) :: nbrs s.cons x) (setDefault y [] s.cons)) u → A v := by
        intro u v w hm
        rw [nbrs_assign] at hm
        split at hm
        · rcases List.mem_cons.mp hm with hm | hm
          · cases hm; exact hy
          · exact he x v w hm
        · exact he1 u v w hm
      split at h
      · rename_i d hres
        cases h
        intro _
        refine ⟨?_, ?_, he2⟩
        · unfold incCheck at hres
          simp only at hres
          split at hres
          · exact loop_pres (fun d => (keys d).Nodup) _ y b (fun _ _ _ _ _ hq _ => nodup_keys_assign _ _ _ hq)
              fuel _ _ _ (nodup_keys_assign _ _ _ hn1) hres
          · cases hres; exact hn1
        · unfold incCheck at hres
          simp only at hres
          split at hres
          · refine loop_pres (fun d => ∀ k ∈ keys d, A k) _ y b ?_ fuel _ _ _ ?_ hres
            · intro c d v w hm hq _ k hkm
              rcases (mem_keys_assign _ _ _ _).mp hkm with rfl | hkm
              · exact he2 c k w hm
              · exact hq k hkm
            · intro k hkm
              rcases (mem_keys_assign _ _ _ _).mp hkm with rfl | hkm
              · exact hy
              · exact hk1 k hkm
          · cases hres; exact hk1
      · cases h; intro hs; simp at hs
      · cases h

theorem addAll_wf (A : Ev → Prop) (fuel : Nat) : ∀ (cs : List (Con Ev)) (s s' : Net Ev),
    NetWF A s → (∀ c ∈ cs, A c.x ∧ A c.y) → addAll fuel s cs = some s' → NetWF A s' := by
  intro cs
  induction cs with
  | nil => intro s s' hwf _ h; simp only [addAll] at h; cases h; exact hwf
  | cons c r ih =>
    intro s s' hwf hA h
    simp only [addAll] at h
    split at h
    · rename_i s1 h1
      exact ih s1 s' (add_wf A fuel s s1 c.x c.y c.b hwf (hA c (List.mem_cons_self ..)).1
        (hA c (List.mem_cons_self ..)).2 h1) (fun c' hc' => hA c' (List.mem_cons_of_mem _ hc')) h
    · cases h

end UPVerif.PlanConv

namespace UPVerif.PlanConv
open UPVerif.STN

/-! ### the nodes of the generated constraints are the plan's nodes -/

/-- the `STNPlanNode`s of a plan: start and end of the plan, the START of every instance, the END of
every durative instance -/
def PlanNode (inp : Input) : Node → Prop
  | .startPlan => True
  | .endPlan => True
  | .start i => i < inp.plan.length
  | .finish i => ∃ e du sh, inp.plan[i]? = some e ∧ e.dur = some (du, sh)

theorem gen_planNode (inp : Input) (x : Event) (hx : x ∈ allEvents inp) : PlanNode inp (startNodeOf x.gen) := by
  unfold allEvents at hx
  rcases List.mem_append.mp hx with h | h
  · unfold durativeEvents at h
    simp only [List.mem_map] at h
    obtain ⟨t, _, rfl⟩ := h
    simp [startNodeOf, PlanNode]
  · obtain ⟨j, e, hj, hg, _⟩ := mem_planEvents _ _ _ _ h
    rw [hg]
    simp only [startNodeOf, PlanNode, Nat.zero_add]
    exact (List.getElem?_eq_some_iff.mp hj).1

theorem stnConstraints_nodes (inp : Input) :
    DictAll (fun k y => PlanNode inp k ∧ PlanNode inp y.2.2) (stnConstraints inp) := by
  unfold stnConstraints
  refine adjCons_all _ _ _ _ _ (scanCons_all _ _ _ _ (dictAll_nil _) ?_ ?_) ?_
  · intro j e hj _
    simp only [PlanNode, Nat.zero_add, true_and]
    exact (List.getElem?_eq_some_iff.mp hj).1
  · intro j e du sh hj hd
    simp only [PlanNode, Nat.zero_add]
    exact ⟨(List.getElem?_eq_some_iff.mp hj).1, e, du, sh, hj, hd⟩
  · intro p hp j hj cur nxt b hc hn hb
    have hcm := (mem_seqEvents inp cur).mp (List.mem_of_getElem? hc)
    have hnm := (mem_seqEvents inp nxt).mp (List.mem_of_getElem? hn)
    refine ⟨gen_planNode inp cur hcm, ?_⟩
    unfold edgeBound at hb
    split at hb
    · split at hb <;> (cases hb; exact gen_planNode inp nxt hnm)
    · cases hb

theorem insertions_nodes (inp : Input) : ∀ c ∈ insertions inp, PlanNode inp c.x ∧ PlanNode inp c.y := by
  intro c hc
  simp only [insertions, insertionsOf, List.mem_cons, List.mem_flatMap] at hc
  rcases hc with rfl | ⟨⟨a, lb, ub, b⟩, hm, hc⟩
  · simp [PlanNode]
  · obtain ⟨ha, hb⟩ := stnConstraints_nodes inp a (lb, ub, b) ((mem_flatten _ a b lb ub).mp hm)
    simp only at hb
    simp only [tupleInsertions, List.mem_append, List.mem_ite_nil_right, List.mem_singleton] at hc
    rcases hc with ((((⟨_, rfl⟩ | ⟨_, rfl⟩) | ⟨_, rfl⟩) | ⟨_, rfl⟩) | rfl) | hc
    · exact ⟨trivial, ha⟩
    · exact ⟨ha, trivial⟩
    · exact ⟨trivial, hb⟩
    · exact ⟨hb, trivial⟩
    · exact ⟨ha, hb⟩
    · cases ub with
      | none => simp at hc
      | some u => simp only [List.mem_singleton] at hc; subst hc; exact ⟨hb, ha⟩

/-! ### `actionMap` -/

/-- what `action_instance_map[i]` is after the nodes with distances `st` (START) and `fi` (END) were met -/
def mergeEntry (prev : Option (Option Rat × Option Rat)) : Option Rat → Option Rat → Option (Option Rat × Option Rat)
  | none, none => prev
  | some r, none => some (some (-r), (prev.getD (none, none)).2)
  | none, some r' => some ((prev.getD (none, none)).1, some (-r'))
  | some r, some r' => some (some (-r), some (-r'))

theorem lookup_cons (k a : Node) (r : Rat) (d : Dist Node) :
    lookup k ((a, r) :: d) = if a = k then some r else lookup k d := rfl

theorem lookup_foldl_mapStep : ∀ (d : Dist Node) (m : ActionMap), (keys d).Nodup → ∀ i,
    lookup i (d.foldl mapStep m) = mergeEntry (lookup i m) (lookup (Node.start i) d) (lookup (Node.finish i) d) := by
  intro d
  induction d with
  | nil => intro m _ i; simp [lookup, mergeEntry]
  | cons p d' ih =>
    obtain ⟨n, r⟩ := p
    intro m hn i
    simp only [keys, List.map_cons, List.nodup_cons] at hn
    have hnd : (keys d').Nodup := hn.2
    have hnot : lookup n d' = none := (lookup_none_iff n d').mpr hn.1
    rw [List.foldl_cons, ih _ hnd i, lookup_cons, lookup_cons]
    cases n with
    | startPlan => simp [mapStep]
    | endPlan => simp [mapStep]
    | start j =>
      simp only [mapStep, lookup_assign]
      by_cases hji : j = i
      · subst hji
        simp only [if_true, hnot]
        cases lookup (Node.finish j) d' <;> simp [mergeEntry]
      · have : ¬ Node.start j = Node.start i := fun e => hji (by cases e; rfl)
        simp [hji, this]
    | finish j =>
      simp only [mapStep, lookup_assign]
      by_cases hji : j = i
      · subst hji
        simp only [if_true, hnot]
        cases lookup (Node.start j) d' <;> simp [mergeEntry]
      · have : ¬ Node.finish j = Node.finish i := fun e => hji (by cases e; rfl)
        simp [hji, this]

theorem nodup_foldl_mapStep : ∀ (d : Dist Node) (m : ActionMap), (keys m).Nodup → (keys (d.foldl mapStep m)).Nodup := by
  intro d
  induction d with
  | nil => intro m h; simpa using h
  | cons p d' ih =>
    obtain ⟨n, r⟩ := p
    intro m h
    rw [List.foldl_cons]
    apply ih
    cases n <;> simp only [mapStep] <;> first | exact h | exact nodup_keys_assign _ _ _ h

/-! ### `backEntries` and the final sort -/

theorem backEntries_spec : ∀ (m : ActionMap), (∀ i a b, (i, (a, b)) ∈ m → a.isSome = true) →
    ∃ l, backEntries m = some l ∧ l.map (fun x => x.2.1) = keys m ∧
      ∀ st i du, (st, i, du) ∈ l ↔ ∃ en, (i, (some st, en)) ∈ m ∧ du = en.map fun e => e - st := by
  intro m
  induction m with
  | nil => intro _; exact ⟨[], rfl, rfl, by simp⟩
  | cons p r ih =>
    obtain ⟨i0, a0, b0⟩ := p
    intro h
    obtain ⟨l, hl, hk, hm⟩ := ih (fun i a b hmem => h i a b (List.mem_cons_of_mem _ hmem))
    have ha := h i0 a0 b0 (List.mem_cons_self ..)
    cases a0 with
    | none => cases ha
    | some st0 =>
      refine ⟨(st0, i0, b0.map fun e => e - st0) :: l, by simp [backEntries, hl], by simp [keys, hk] , ?_⟩
      · intro st i du
        simp only [List.mem_cons, Prod.mk.injEq, hm]
        constructor
        · rintro (⟨rfl, rfl, rfl⟩ | ⟨en, hen, rfl⟩)
          · exact ⟨b0, Or.inl ⟨rfl, rfl, rfl⟩, rfl⟩
          · exact ⟨en, Or.inr hen, rfl⟩
        · rintro ⟨en, (⟨rfl, h1, rfl⟩ | hen), rfl⟩
          · cases h1; exact Or.inl ⟨rfl, rfl, rfl⟩
          · exact Or.inr ⟨en, hen, rfl⟩

theorem perm_insertBack (e : BackEntry) : ∀ (l : List BackEntry), (insertBack e l).Perm (e :: l) := by
  intro l
  induction l with
  | nil => simp [insertBack]
  | cons x r ih =>
    simp only [insertBack]
    split
    · exact List.Perm.refl _
    · exact ((List.Perm.cons x ih).trans (List.Perm.swap e x r))

theorem perm_foldl_insertBack : ∀ (l acc : List BackEntry),
    (l.foldl (fun acc e => insertBack e acc) acc).Perm (l ++ acc) := by
  intro l
  induction l with
  | nil => intro acc; simp
  | cons e r ih =>
    intro acc
    rw [List.foldl_cons]
    refine (ih _).trans ?_
    refine (List.Perm.append_left r (perm_insertBack e acc)).trans ?_
    simp

end UPVerif.PlanConv

namespace UPVerif.PlanConv
open UPVerif.STN UPVerif.C25

/-! ### the back-converted plan -/

theorem entry_nodes (inp : Input) (i : Nat) (e : Entry) (hi : inp.plan[i]? = some e) :
    Node.start i ∈ events (insertions inp) ∧
    (∀ du sh, e.dur = some (du, sh) → Node.finish i ∈ events (insertions inp)) := by
  obtain ⟨h1, h2⟩ := entry_constraint inp i e hi
  constructor
  · cases hd : e.dur with
    | none => exact (insertions_of_inDict _ _ _ _ _ (h1 hd)).2.2.2
    | some p => obtain ⟨du, sh⟩ := p; exact (insertions_of_inDict _ _ _ _ _ (h2 du sh hd)).2.2.1
  · intro du sh hd
    exact (insertions_of_inDict _ _ _ _ _ (h2 du sh hd)).2.2.2

/-- in the least model a durative instance keeps exactly its original duration -/
theorem duration_kept (inp : Input) (t : Node → Rat) (ht : Sol t (insertions inp))
    (i : Nat) (e : Entry) (du : Rat) (sh : Shape) (hi : inp.plan[i]? = some e) (hd : e.dur = some (du, sh)) :
    t (.finish i) - t (.start i) = du := by
  obtain ⟨c1, c2, _⟩ := insertions_of_inDict _ _ _ _ _ ((entry_constraint inp i e hi).2 du sh hd)
  have h1 := ht _ c1
  have h2 := ht _ (c2 du rfl)
  simp only at h1 h2
  grind

theorem model_of_lookup (s : Net Node) (k : Node) (r : Rat) (h : lookup k s.dist = some r) : model s k = -r := by
  unfold model STN.get
  rw [h]
  simp only [Option.getD_some]
  grind

theorem back_spec (inp : Input) (fuel : Nat) (s : Net Node)
    (h : convertToStn fuel inp = some s) (hs : isConsistent s = true) :
    ∃ l, convertToTimeTriggered s = some l ∧ (l.map (fun x => x.2.1)).Nodup ∧
      (∀ x ∈ l, x.2.1 < inp.plan.length) ∧
      (∀ i e, inp.plan[i]? = some e → (model s (.start i), i, e.dur.map (fun p => p.1)) ∈ l) := by
  unfold convertToStn at h
  have hsat : s.sat = true := hs
  obtain ⟨hnd, hsub, _⟩ := addAll_wf (PlanNode inp) fuel (insertions inp) empty s (netWF_empty _)
    (insertions_nodes inp) h hsat
  have hkeys := C25_model_defined fuel (insertions inp) s h hs
  have hsol := C25_sat_sound fuel (insertions inp) s h hs
  have hlook : ∀ i, lookup i (actionMap s) =
      mergeEntry none (lookup (Node.start i) s.dist) (lookup (Node.finish i) s.dist) := by
    intro i
    have := lookup_foldl_mapStep s.dist [] hnd i
    simpa [actionMap, lookup] using this
  have hmn : (keys (actionMap s)).Nodup := nodup_foldl_mapStep s.dist [] (by simp [keys])
  -- a key `finish i` belongs to a durative entry, whose `start i` is a key too
  have hfin : ∀ i r, lookup (Node.finish i) s.dist = some r → ∃ r', lookup (Node.start i) s.dist = some r' := by
    intro i r hr
    have hk : Node.finish i ∈ keys s.dist := by
      by_cases hk : Node.finish i ∈ keys s.dist
      · exact hk
      · rw [(lookup_none_iff _ _).mpr hk] at hr; cases hr
    obtain ⟨e, du, sh, hi, _⟩ := hsub _ hk
    have := hkeys _ (entry_nodes inp i e hi).1
    cases hl : lookup (Node.start i) s.dist with
    | none => rw [hl] at this; cases this
    | some r' => exact ⟨r', rfl⟩
  have hall : ∀ i a b, (i, (a, b)) ∈ actionMap s → a.isSome = true := by
    intro i a b hm
    have h1 := lookup_of_mem_nodup i (a, b) _ hmn hm
    rw [hlook i] at h1
    cases hst : lookup (Node.start i) s.dist with
    | some r =>
      rw [hst] at h1
      cases hfi : lookup (Node.finish i) s.dist <;> (rw [hfi] at h1; simp only [mergeEntry] at h1; cases h1; rfl)
    | none =>
      rw [hst] at h1
      cases hfi : lookup (Node.finish i) s.dist with
      | none => rw [hfi] at h1; simp [mergeEntry] at h1
      | some r' =>
        obtain ⟨r'', hr''⟩ := hfin i r' hfi
        rw [hst] at hr''; cases hr''
  obtain ⟨l0, hl0, hk0, hm0⟩ := backEntries_spec (actionMap s) hall
  have hperm := perm_foldl_insertBack l0 []
  rw [List.append_nil] at hperm
  refine ⟨l0.foldl (fun acc e => insertBack e acc) [], by simp [convertToTimeTriggered, hl0], ?_, ?_, ?_⟩
  · rw [(hperm.map _).nodup_iff, hk0]
    exact hmn
  · intro x hx
    obtain ⟨st, i, du⟩ := x
    obtain ⟨en, hen, _⟩ := (hm0 st i du).mp (hperm.mem_iff.mp hx)
    have h1 := lookup_of_mem_nodup i (some st, en) _ hmn hen
    rw [hlook i] at h1
    have hk : Node.start i ∈ keys s.dist := by
      cases hst : lookup (Node.start i) s.dist with
      | some r =>
        by_cases hk : Node.start i ∈ keys s.dist
        · exact hk
        · rw [(lookup_none_iff _ _).mpr hk] at hst; cases hst
      | none =>
        rw [hst] at h1
        cases hfi : lookup (Node.finish i) s.dist with
        | none => rw [hfi] at h1; simp [mergeEntry] at h1
        | some r' =>
          obtain ⟨r'', hr''⟩ := hfin i r' hfi
          rw [hst] at hr''; cases hr''
    exact hsub _ hk
  · intro i e hi
    refine hperm.mem_iff.mpr ((hm0 _ _ _).mpr ?_)
    obtain ⟨hsn, hfn⟩ := entry_nodes inp i e hi
    have hks := hkeys _ hsn
    cases hst : lookup (Node.start i) s.dist with
    | none => rw [hst] at hks; cases hks
    | some r =>
      have hms : model s (.start i) = -r := model_of_lookup s _ r hst
      cases hd : e.dur with
      | none =>
        have hfi : lookup (Node.finish i) s.dist = none := by
          cases hfi : lookup (Node.finish i) s.dist with
          | none => rfl
          | some r' =>
            have hk : Node.finish i ∈ keys s.dist := by
              by_cases hk : Node.finish i ∈ keys s.dist
              · exact hk
              · rw [(lookup_none_iff _ _).mpr hk] at hfi; cases hfi
            obtain ⟨e', du, sh, hi', hd'⟩ := hsub _ hk
            rw [hi] at hi'; cases hi'; rw [hd] at hd'; cases hd'
        refine ⟨none, lookup_mem _ _ _ ?_, rfl⟩
        rw [hlook i, hst, hfi, hms]
        rfl
      | some p =>
        obtain ⟨du, sh⟩ := p
        have hkf := hkeys _ (hfn du sh hd)
        cases hfi : lookup (Node.finish i) s.dist with
        | none => rw [hfi] at hkf; cases hkf
        | some r' =>
          have hmf : model s (.finish i) = -r' := model_of_lookup s _ r' hfi
          have hdu := duration_kept inp (model s) hsol i e du sh hi hd
          refine ⟨some (-r'), lookup_mem _ _ _ ?_, ?_⟩
          · rw [hlook i, hst, hfi, hms]
            rfl
          · simp only [Option.map_some, Option.some.injEq]
            rw [hmf, hms] at hdu
            rw [hms]
            grind

end UPVerif.PlanConv
