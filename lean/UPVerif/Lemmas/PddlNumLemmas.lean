import UPVerif.Core.PddlNum
/-! Helper lemmas for the numeric-constant clauses of `Props/C18.lean`: digits of naturals (no Mathlib here;
    the final rational step is in `PddlNumRat.lean`). -/
namespace UPVerif.Pddl

/-! ### single digits -/

theorem digitChar_toNat {d : Nat} (h : d < 10) : (digitChar d).toNat = 48 + d := by
  have hv : (48 + d).isValidChar := by
    left
    omega
  unfold digitChar
  simp only [Char.ofNat, hv, ↓reduceDIte, Char.toNat, Char.ofNatAux]
  simp
  omega

theorem charDigit_digitChar {d : Nat} (h : d < 10) : charDigit? (digitChar d) = some d := by
  unfold charDigit?
  rw [digitChar_toNat h]
  have h1 : 48 ≤ 48 + d ∧ 48 + d ≤ 57 := by omega
  simp [h1]

/-- a character that reads as a digit is none of the sign / dot characters -/
theorem charDigit_ne {c : Char} {d : Nat} (h : charDigit? c = some d) : c ≠ '.' ∧ c ≠ '-' ∧ c ≠ '+' := by
  unfold charDigit? at h
  refine ⟨?_, ?_, ?_⟩ <;> (intro hc; subst hc; simp at h)

def allDigits (cs : List Char) : Prop := ∀ c ∈ cs, ∃ d, charDigit? c = some d ∧ d < 10

theorem allDigits_nil : allDigits [] := by
  intro c hc
  cases hc

theorem allDigits_cons {c : Char} {cs : List Char} {d : Nat} (h : charDigit? c = some d) (hd : d < 10)
    (hs : allDigits cs) : allDigits (c :: cs) := by
  intro x hx
  cases hx with
  | head => exact ⟨d, h, hd⟩
  | tail _ hm => exact hs x hm

theorem allDigits_append {xs ys : List Char} (hx : allDigits xs) (hy : allDigits ys) : allDigits (xs ++ ys) := by
  intro c hc
  rcases List.mem_append.mp hc with h | h
  · exact hx c h
  · exact hy c h

theorem allDigits_of_append_left {xs ys : List Char} (h : allDigits (xs ++ ys)) : allDigits xs :=
  fun c hc => h c (List.mem_append.mpr (Or.inl hc))

theorem allDigits_of_append_right {xs ys : List Char} (h : allDigits (xs ++ ys)) : allDigits ys :=
  fun c hc => h c (List.mem_append.mpr (Or.inr hc))

/-! ### value of a digit string -/

theorem digitsVal_append (xs ys : List Char) (a : Nat) :
    digitsVal? (xs ++ ys) a = (digitsVal? xs a).bind (fun v => digitsVal? ys v) := by
  induction xs generalizing a with
  | nil => simp [digitsVal?]
  | cons c cs ih =>
    simp only [List.cons_append, digitsVal?]
    cases charDigit? c with
    | none => simp
    | some d => simp [ih]

/-- every all-digit string has a value, and a non-zero start value only shifts it -/
theorem digitsVal_allDigits (xs : List Char) (h : allDigits xs) :
    ∃ b, b < 10 ^ xs.length ∧ ∀ a, digitsVal? xs a = some (a * 10 ^ xs.length + b) := by
  induction xs with
  | nil => exact ⟨0, by simp, fun a => by simp [digitsVal?]⟩
  | cons c cs ih =>
    obtain ⟨d, hd, hd10⟩ := h c (List.mem_cons_self)
    obtain ⟨b, hb, hval⟩ := ih (fun x hx => h x (List.mem_cons_of_mem _ hx))
    refine ⟨d * 10 ^ cs.length + b, ?_, ?_⟩
    · simp only [List.length_cons, Nat.pow_succ]
      have h9 : d * 10 ^ cs.length ≤ 9 * 10 ^ cs.length := Nat.mul_le_mul_right _ (by omega)
      generalize 10 ^ cs.length = p at *
      omega
    · intro a
      simp only [digitsVal?, hd, hval, List.length_cons, Nat.pow_succ]
      congr 1
      rw [Nat.add_mul, Nat.mul_assoc, Nat.mul_comm 10 (10 ^ cs.length)]
      generalize 10 ^ cs.length = p
      generalize a * (p * 10) = q
      generalize d * p = r
      omega

/-! ### digits of a natural number -/

theorem natDigitsAux_spec (f : Nat) : ∀ (n : Nat) (acc : List Char), n < 10 ^ (f + 1) →
    ∃ ds, natDigitsAux (f + 1) n acc = ds ++ acc ∧ ds ≠ [] ∧ allDigits ds ∧
      ∀ a, digitsVal? ds a = some (a * 10 ^ ds.length + n) := by
  induction f with
  | zero =>
    intro n acc h
    have h10 : n < 10 := by simpa using h
    refine ⟨[digitChar n], by simp [natDigitsAux, h10], by simp, ?_, ?_⟩
    · exact allDigits_cons (charDigit_digitChar h10) h10 allDigits_nil
    · intro a
      simp [digitsVal?, charDigit_digitChar h10]
  | succ f ih =>
    intro n acc h
    by_cases h10 : n < 10
    · refine ⟨[digitChar n], by simp [natDigitsAux, h10], by simp, ?_, ?_⟩
      · exact allDigits_cons (charDigit_digitChar h10) h10 allDigits_nil
      · intro a
        simp [digitsVal?, charDigit_digitChar h10]
    · have hdiv : n / 10 < 10 ^ (f + 1) := by
        rw [Nat.pow_succ] at h
        generalize 10 ^ (f + 1) = p at *
        omega
      obtain ⟨ds, hds, hne, hall, hval⟩ := ih (n / 10) (digitChar (n % 10) :: acc) hdiv
      have hm : n % 10 < 10 := Nat.mod_lt _ (by omega)
      refine ⟨ds ++ [digitChar (n % 10)], ?_, by simp, ?_, ?_⟩
      · rw [natDigitsAux]
        simp [h10, hds]
      · exact allDigits_append hall (allDigits_cons (charDigit_digitChar hm) hm allDigits_nil)
      · intro a
        rw [digitsVal_append, hval]
        simp only [Option.bind_some, digitsVal?, charDigit_digitChar hm, List.length_append, List.length_cons,
          List.length_nil, Nat.pow_succ]
        congr 1
        have := Nat.div_add_mod n 10
        rw [Nat.add_mul, Nat.mul_assoc]
        generalize a * (10 ^ ds.length * 10) = q
        omega

theorem lt_ten_pow_succ (n : Nat) : n < 10 ^ (n + 1) := by
  have h1 : n < 10 ^ n := Nat.lt_pow_self (by omega)
  have h2 : 10 ^ n ≤ 10 ^ (n + 1) := Nat.pow_le_pow_right (by omega) (by omega)
  omega

theorem natDigits_spec (n : Nat) :
    natDigits n ≠ [] ∧ allDigits (natDigits n) ∧ ∀ a, digitsVal? (natDigits n) a = some (a * 10 ^ (natDigits n).length + n) := by
  obtain ⟨ds, hds, hne, hall, hval⟩ := natDigitsAux_spec n n [] (lt_ten_pow_succ n)
  simp only [List.append_nil] at hds
  unfold natDigits
  rw [hds]
  exact ⟨hne, hall, hval⟩

theorem parseNat_natDigits (n : Nat) : parseNat? (natDigits n) = some n := by
  obtain ⟨hne, _, hval⟩ := natDigits_spec n
  unfold parseNat?
  have : (natDigits n).isEmpty = false := by
    cases h : natDigits n with
    | nil => exact absurd h hne
    | cons _ _ => rfl
  simp [this, hval]

/-! ### splitting at the dot -/

theorem splitAtDot_digits (xs : List Char) (h : allDigits xs) : splitAtDot xs = (xs, none) := by
  induction xs with
  | nil => rfl
  | cons c cs ih =>
    obtain ⟨d, hd, _⟩ := h c (List.mem_cons_self)
    have hne := (charDigit_ne hd).1
    have := ih (fun x hx => h x (List.mem_cons_of_mem _ hx))
    unfold splitAtDot
    split
    · rename_i heq
      cases heq
    · rename_i heq
      simp at heq
      exact absurd heq.1 hne
    · rename_i heq
      simp_all

theorem splitAtDot_digits_dot (xs ys : List Char) (h : allDigits xs) :
    splitAtDot (xs ++ '.' :: ys) = (xs, some ys) := by
  induction xs with
  | nil => simp [splitAtDot]
  | cons c cs ih =>
    obtain ⟨d, hd, _⟩ := h c (List.mem_cons_self)
    have hne := (charDigit_ne hd).1
    have := ih (fun x hx => h x (List.mem_cons_of_mem _ hx))
    simp only [List.cons_append]
    unfold splitAtDot
    split
    · rename_i heq
      cases heq
    · rename_i heq
      simp at heq
      exact absurd heq.1 hne
    · rename_i heq
      simp_all

/-! ### integers -/

theorem parseUnsigned_natDigits (n : Nat) : parseUnsigned (natDigits n) = some (n : Rat) := by
  obtain ⟨_, hall, _⟩ := natDigits_spec n
  unfold parseUnsigned
  rw [splitAtDot_digits _ hall]
  simp [parseNat_natDigits]

theorem head_natDigits (n : Nat) : ∃ c cs, natDigits n = c :: cs ∧ c ≠ '-' ∧ c ≠ '+' := by
  obtain ⟨hne, hall, _⟩ := natDigits_spec n
  cases h : natDigits n with
  | nil => exact absurd h hne
  | cons c cs =>
    rw [h] at hall
    obtain ⟨d, hd, _⟩ := hall c (List.mem_cons_self)
    exact ⟨c, cs, rfl, (charDigit_ne hd).2.1, (charDigit_ne hd).2.2⟩

theorem parseNumberChars_of_head {c : Char} {cs : List Char} (h1 : c ≠ '-') (h2 : c ≠ '+') :
    parseNumberChars (c :: cs) = parseUnsigned (c :: cs) := by
  unfold parseNumberChars
  split
  · rename_i heq
    injection heq with h _
    exact absurd h h1
  · rename_i heq
    injection heq with h _
    exact absurd h h2
  · rfl

/-- `str(z)` of a Python int is read back by `Fraction` as `z` -/
theorem parseNumberChars_intChars (z : Int) : parseNumberChars (intChars z) = some (z : Rat) := by
  unfold intChars
  by_cases hz : z < 0
  · simp only [hz, ↓reduceIte, parseNumberChars, parseUnsigned_natDigits, Option.map_some]
    congr 1
    have : (z.natAbs : Int) = -z := Int.ofNat_natAbs_of_nonpos (by omega)
    have h2 : z = -(z.natAbs : Int) := by omega
    conv => rhs; rw [h2]
    simp [Rat.intCast_neg, Rat.intCast_natCast]
  · simp only [hz, ↓reduceIte]
    obtain ⟨c, cs, hcs, h1, h2⟩ := head_natDigits z.natAbs
    rw [hcs, parseNumberChars_of_head h1 h2, ← hcs, parseUnsigned_natDigits]
    congr 1
    have : (z.natAbs : Int) = z := Int.natAbs_of_nonneg (by omega)
    conv => rhs; rw [← this]
    simp [Rat.intCast_natCast]

theorem parseNumber_intStr (z : Int) : parseNumber (intStr z) = some (z : Rat) := by
  unfold parseNumber intStr
  rw [String.toList_ofList]
  exact parseNumberChars_intChars z



/-! ### exact decimals: the digit part -/

theorem stripFactor_spec (p fuel n : Nat) : n = p ^ (stripFactor p fuel n).1 * (stripFactor p fuel n).2 := by
  induction fuel generalizing n with
  | zero => simp [stripFactor]
  | succ f ih =>
    unfold stripFactor
    by_cases h : (n % p == 0 && n != 0) = true
    · simp only [h, ↓reduceIte]
      have hm : n % p = 0 := by
        simp only [Bool.and_eq_true, beq_iff_eq] at h
        exact h.1
      have := ih (n / p)
      have hdiv : n = p * (n / p) := by
        have := Nat.div_add_mod n p
        omega
      rw [Nat.pow_succ]
      calc n = p * (n / p) := hdiv
        _ = p * (p ^ (stripFactor p f (n / p)).1 * (stripFactor p f (n / p)).2) := by rw [← this]
        _ = p ^ (stripFactor p f (n / p)).1 * p * (stripFactor p f (n / p)).2 := by
            rw [← Nat.mul_assoc, Nat.mul_comm p (p ^ _)]
    · simp [h]

theorem charDigit_zero : charDigit? '0' = some 0 := by decide

theorem allDigits_replicate_zero (k : Nat) : allDigits (List.replicate k '0') := by
  intro c hc
  have := List.eq_of_mem_replicate hc
  subst this
  exact ⟨0, charDigit_zero, by omega⟩

theorem digitsVal_replicate_zero (k a : Nat) (ys : List Char) :
    digitsVal? (List.replicate k '0' ++ ys) a = digitsVal? ys (a * 10 ^ k) := by
  induction k generalizing a with
  | zero => simp
  | succ k ih =>
    simp only [List.replicate_succ, List.cons_append, digitsVal?, charDigit_zero, Nat.add_zero]
    rw [ih, Nat.pow_succ, Nat.mul_assoc, Nat.mul_comm 10]

/-- the digits written by `decimalChars` for `N = |num| * 10^scale / den`, split `scale` places from the right -/
theorem decimalBody_spec (N scale : Nat) :
    let digits := rjustZeros (scale + 1) (natDigits N)
    let ip := digits.take (digits.length - scale)
    let fp := digits.drop (digits.length - scale)
    let fp' := if fp.isEmpty then ['0'] else fp
    ∃ x y : Nat, y ≠ 0 ∧ x * 10 ^ scale = N * y ∧
      parseUnsigned (ip ++ '.' :: fp') = some ((x : Rat) / (y : Rat)) ∧
      ∃ c cs, ip = c :: cs ∧ c ≠ '-' ∧ c ≠ '+' := by
  intro digits ip fp fp'
  obtain ⟨hne, hall, hval⟩ := natDigits_spec N
  have hdall : allDigits digits := allDigits_append (allDigits_replicate_zero _) hall
  have hdval : digitsVal? digits 0 = some N := by
    show digitsVal? (List.replicate _ '0' ++ natDigits N) 0 = some N
    rw [digitsVal_replicate_zero, hval]
    simp
  have hlen : scale + 1 ≤ digits.length := by
    show scale + 1 ≤ (List.replicate _ '0' ++ natDigits N).length
    simp only [List.length_append, List.length_replicate]
    omega
  have hsplit : ip ++ fp = digits := List.take_append_drop _ _
  have hipall : allDigits ip := allDigits_of_append_left (hsplit ▸ hdall)
  have hfpall : allDigits fp := allDigits_of_append_right (hsplit ▸ hdall)
  have hfplen : fp.length = scale := by
    show (digits.drop _).length = scale
    rw [List.length_drop]
    omega
  have hiplen : 0 < ip.length := by
    show 0 < (digits.take _).length
    rw [List.length_take]
    omega
  obtain ⟨A, _, hA⟩ := digitsVal_allDigits ip hipall
  obtain ⟨B, _, hB⟩ := digitsVal_allDigits fp hfpall
  have hN : A * 10 ^ scale + B = N := by
    have h := digitsVal_append ip fp 0
    rw [hsplit, hdval, hA 0, Option.bind_some, hB] at h
    simp only [Nat.zero_mul, Nat.zero_add, Option.some.injEq] at h
    rw [hfplen] at h
    omega
  have hipne : ip.isEmpty = false := by
    cases hip : ip with
    | nil => simp [hip] at hiplen
    | cons _ _ => rfl
  have hpA : parseNat? ip = some A := by
    unfold parseNat?
    simp [hipne, hA 0]
  have hhead : ∃ c cs, ip = c :: cs ∧ c ≠ '-' ∧ c ≠ '+' := by
    cases hip : ip with
    | nil => simp [hip] at hiplen
    | cons c cs =>
      rw [hip] at hipall
      obtain ⟨d, hd, _⟩ := hipall c (List.mem_cons_self)
      exact ⟨c, cs, rfl, (charDigit_ne hd).2.1, (charDigit_ne hd).2.2⟩
  by_cases hs : scale = 0
  · -- no fractional digit: the writer prints `.0`
    have hfp : fp = [] := List.eq_nil_of_length_eq_zero (by omega)
    have hfp' : fp' = ['0'] := by
      show (if fp.isEmpty then ['0'] else fp) = ['0']
      simp [hfp]
    refine ⟨A * 10 + 0, 10, by omega, ?_, ?_, hhead⟩
    · have hB0 : B = 0 := by
        have h := hB 0
        rw [hfp] at h
        simp [digitsVal?] at h
        omega
      subst hs
      simp at hN
      simp
      omega
    · rw [hfp']
      unfold parseUnsigned
      rw [splitAtDot_digits_dot _ _ hipall]
      have h0 : parseNat? ['0'] = some 0 := by decide
      simp only [hpA, h0, List.length_cons, List.length_nil]
  · have hfpne : fp.isEmpty = false := by
      cases hf : fp with
      | nil => simp [hf] at hfplen; omega
      | cons _ _ => rfl
    have hfp' : fp' = fp := by
      show (if fp.isEmpty then ['0'] else fp) = fp
      simp [hfpne]
    have hpB : parseNat? fp = some B := by
      unfold parseNat?
      simp [hfpne, hB 0]
    refine ⟨A * 10 ^ scale + B, 10 ^ scale, Nat.ne_of_gt (Nat.pow_pos (by omega)), by rw [hN], ?_, hhead⟩
    rw [hfp']
    unfold parseUnsigned
    rw [splitAtDot_digits_dot _ _ hipall]
    simp only [hpA, hpB, hfplen]

end UPVerif.Pddl
