import UPVerif.Lemmas.SubstSpec
import UPVerif.Lemmas.SubstBasic
import UPVerif.Lemmas.DenLemmas
/-!
Proofs for `Props/C13.lean`: unfolding equations of the walker, the equivalence with the declarative
relation `Replaces`, and the semantic clause.
-/
namespace UPVerif.Expr

/-! ### the walker computes the declarative relation -/

theorem active_iff (B : List Var) (k : Expr) :
    (freeVars k).all (fun m => !B.contains m) = true ↔ ∀ m ∈ freeVars k, m ∉ B := by
  simp [List.all_eq_true]

theorem restrict_nil (σ : Subst) : restrict [] σ = σ := by
  unfold restrict
  apply List.filter_eq_self.2
  intro a _
  simp

theorem keptUnder_restrict (vs B : List Var) (σ : Subst) :
    keptUnder vs (restrict B σ) = restrict (vs ++ B) σ := by
  unfold keptUnder restrict
  rw [List.filter_filter]
  apply List.filter_congr
  intro kv _
  rw [Bool.eq_iff_iff]
  simp only [Bool.and_eq_true, active_iff]
  constructor
  · rintro ⟨h1, h2⟩ m hm hmem
    rcases List.mem_append.1 hmem with h | h
    · exact h1 m hm h
    · exact h2 m hm h
  · intro h
    exact ⟨fun m hm hv => h m hm (List.mem_append_left _ hv),
           fun m hm hv => h m hm (List.mem_append_right _ hv)⟩

theorem lookup_restrict (B : List Var) (σ : Subst) (e : Expr) :
    (restrict B σ).lookup e
      = if (freeVars e).all (fun m => !B.contains m) then σ.lookup e else none :=
  lookup_filter_key (fun k => (freeVars k).all (fun m => !B.contains m)) e σ

theorem lookup_restrict_some_iff (B : List Var) (σ : Subst) (e v : Expr) :
    (restrict B σ).lookup e = some v ↔ Matches σ B e v := by
  rw [lookup_restrict]
  unfold Matches
  by_cases h : (freeVars e).all (fun m => !B.contains m) = true
  · rw [if_pos h]
    exact ⟨fun h' => ⟨h', (active_iff B e).1 h⟩, fun h' => h'.1⟩
  · rw [if_neg h]
    constructor
    · intro h'; cases h'
    · intro h'; exact absurd ((active_iff B e).2 h'.2) h

theorem lookup_restrict_none_iff (B : List Var) (σ : Subst) (e : Expr) :
    (restrict B σ).lookup e = none ↔ ∀ v, ¬ Matches σ B e v := by
  constructor
  · intro h v hm
    rw [(lookup_restrict_some_iff B σ e v).2 hm] at h
    cases h
  · intro h
    cases h' : (restrict B σ).lookup e with
    | none => rfl
    | some v => exact absurd ((lookup_restrict_some_iff B σ e v).1 h') (h v)

theorem restrict_isEmpty_iff (B : List Var) (σ : Subst) :
    (restrict B σ).isEmpty = true ↔ NoneActive σ B := by
  unfold restrict NoneActive
  rw [List.isEmpty_iff, List.filter_eq_nil_iff]
  constructor
  · intro h kv hkv
    have := h kv hkv
    rw [active_iff] at this
    simpa [Classical.not_forall] using this
  · intro h kv hkv
    rw [active_iff]
    obtain ⟨m, hm, hB⟩ := h kv hkv
    exact fun h' => h' m hm hB

mutual
theorem replaces_subst (σ : Subst) : ∀ (e : Expr) (B : List Var),
    Replaces σ B e (subst (restrict B σ) e)
  | .leaf l, B => by
    cases h : (restrict B σ).lookup (.leaf l) with
    | some v =>
      rw [subst_of_lookup_some _ _ _ h]
      exact .key ((lookup_restrict_some_iff B σ _ v).1 h)
    | none =>
      rw [subst_leaf_none _ _ h]
      exact .leaf ((lookup_restrict_none_iff B σ _).1 h)
  | .app op args, B => by
    cases h : (restrict B σ).lookup (.app op args) with
    | some v =>
      rw [subst_of_lookup_some _ _ _ h]
      exact .key ((lookup_restrict_some_iff B σ _ v).1 h)
    | none =>
      rw [subst_app_none _ _ _ h]
      exact .app ((lookup_restrict_none_iff B σ _).1 h) (replacesList_subst σ args B)
  | .quant q vs b, B => by
    cases h : (restrict B σ).lookup (.quant q vs b) with
    | some v =>
      rw [subst_of_lookup_some _ _ _ h]
      exact .key ((lookup_restrict_some_iff B σ _ v).1 h)
    | none =>
      rw [subst_quant_none _ _ _ _ h, keptUnder_restrict]
      by_cases hemp : (restrict (vs ++ B) σ).isEmpty = true
      · rw [if_pos hemp]
        exact .quantSkip ((lookup_restrict_none_iff B σ _).1 h) ((restrict_isEmpty_iff _ σ).1 hemp)
      · rw [if_neg hemp]
        exact .quant ((lookup_restrict_none_iff B σ _).1 h)
          (fun hn => hemp ((restrict_isEmpty_iff _ σ).2 hn)) (replaces_subst σ b (vs ++ B))
theorem replacesList_subst (σ : Subst) : ∀ (es : List Expr) (B : List Var),
    ReplacesList σ B es (substList (restrict B σ) es)
  | [], B => by rw [substList_nil]; exact .nil
  | e :: es, B => by
    rw [substList_cons]
    exact .cons (replaces_subst σ e B) (replacesList_subst σ es B)
end

mutual
theorem replaces_fun (σ : Subst) : ∀ (e : Expr) (B : List Var) (r : Expr),
    Replaces σ B e r → r = subst (restrict B σ) e
  | .leaf l, B, r, h => by
    cases h with
    | key hm => exact (subst_of_lookup_some _ _ _ ((lookup_restrict_some_iff B σ _ _).2 hm)).symm
    | leaf hn => exact (subst_leaf_none _ _ ((lookup_restrict_none_iff B σ _).2 hn)).symm
  | .app op args, B, r, h => by
    cases h with
    | key hm => exact (subst_of_lookup_some _ _ _ ((lookup_restrict_some_iff B σ _ _).2 hm)).symm
    | app hn hl =>
      rw [subst_app_none _ _ _ ((lookup_restrict_none_iff B σ _).2 hn), ← replacesList_fun σ args B _ hl]
  | .quant q vs b, B, r, h => by
    cases h with
    | key hm => exact (subst_of_lookup_some _ _ _ ((lookup_restrict_some_iff B σ _ _).2 hm)).symm
    | quant hn hact hb =>
      rw [subst_quant_none _ _ _ _ ((lookup_restrict_none_iff B σ _).2 hn), keptUnder_restrict,
        if_neg (fun hemp => hact ((restrict_isEmpty_iff _ σ).1 hemp)), ← replaces_fun σ b (vs ++ B) _ hb]
    | quantSkip hn hact =>
      rw [subst_quant_none _ _ _ _ ((lookup_restrict_none_iff B σ _).2 hn), keptUnder_restrict,
        if_pos ((restrict_isEmpty_iff _ σ).2 hact)]
theorem replacesList_fun (σ : Subst) : ∀ (es : List Expr) (B : List Var) (rs : List Expr),
    ReplacesList σ B es rs → rs = substList (restrict B σ) es
  | [], B, rs, h => by
    cases h with
    | nil => rw [substList_nil]
  | e :: es, B, rs, h => by
    cases h with
    | cons h1 h2 =>
      rw [substList_cons, ← replaces_fun σ e B _ h1, ← replacesList_fun σ es B _ h2]
end


/-! ### the semantic clause -/

theorem denOp_congr (ι ι' : Interp) (op : Op) (ws : List Val)
    (hfl : ∀ f, op = .fluent f → ι.fl f ws = ι'.fl f ws)
    (hfn : ι.fn = ι'.fn) : denOp ι op ws = denOp ι' op ws := by
  cases op with
  | fluent f => simp only [denOp]; exact hfl f rfl
  | ifun g => simp only [denOp, hfn]
  | and | or | plus | times => rfl
  | _ =>
    match ws with
    | [] => rfl
    | [a] => cases a <;> rfl
    | [a, b] => cases a <;> cases b <;> rfl
    | a :: b :: c :: t => cases a <;> cases b <;> simp [denOp]

theorem den_const (ι : Interp) (ρ : VEnv) (c : Expr) (w : Val) (h : constVal c = some w) :
    den ι ρ c = some w := by
  cases c with
  | leaf l => cases l <;> simp_all [constVal, den_leaf, denLeaf]
  | app op as => simp [constVal] at h
  | quant q vs b => simp [constVal] at h

theorem freeVars_const (c : Expr) (w : Val) (h : constVal c = some w) : freeVars c = [] := by
  cases c with
  | leaf l => cases l <;> simp_all [constVal, freeVars]
  | app op as => simp [constVal] at h
  | quant q vs b => simp [constVal] at h

theorem freeVarsList_consts : ∀ (cs : List Expr) (as : List Val),
    cs.map constVal = as.map some → freeVarsList cs = []
  | [], _, _ => by rw [freeVarsList]
  | c :: cs, [], h => by simp at h
  | c :: cs, a :: as, h => by
    simp only [List.map_cons, List.cons.injEq] at h
    rw [freeVarsList, freeVars_const c a h.1, freeVarsList_consts cs as h.2]
    rfl

theorem denList_consts (ι : Interp) (ρ : VEnv) : ∀ (cs : List Expr) (as : List Val),
    cs.map constVal = as.map some → denList ι ρ cs = some as
  | [], [], _ => denList_nil ι ρ
  | [], a :: as, h => by simp at h
  | c :: cs, [], h => by simp at h
  | c :: cs, a :: as, h => by
    simp only [List.map_cons, List.cons.injEq] at h
    rw [denList_cons, den_const ι ρ c a h.1, denList_consts ι ρ cs as h.2]
    rfl

theorem exists_vals : ∀ (cs : List Expr), cs.all (fun c => (constVal c).isSome) = true →
    ∃ as : List Val, cs.map constVal = as.map some
  | [], _ => ⟨[], rfl⟩
  | c :: cs, h => by
    simp only [List.all_cons, Bool.and_eq_true] at h
    obtain ⟨as, has⟩ := exists_vals cs h.2
    cases hc : constVal c with
    | none => rw [hc] at h; simp at h
    | some w => exact ⟨w :: as, by simp [hc, has]⟩

/-- `apart` tuples of constants have different value tuples -/
theorem apart_map_ne : ∀ (xs ys : List Expr), apart xs ys = true → xs.map constVal ≠ ys.map constVal
  | [], [], h => by simp [apart] at h
  | [], _ :: _, _ => by simp
  | _ :: _, [], _ => by simp
  | a :: as, c :: cs, h => by
    simp only [apart, Bool.or_eq_true] at h
    intro heq
    simp only [List.map_cons, List.cons.injEq] at heq
    rcases h with h | h
    · cases ha : constVal a with
      | none => simp [ha] at h
      | some x =>
        cases hc : constVal c with
        | none => simp [ha, hc] at h
        | some y =>
          simp only [ha, hc, decide_eq_true_eq] at h
          rw [ha, hc] at heq
          exact h (Option.some.inj heq.1)
    · exact apart_map_ne as cs h heq.2

/-- arguments `apart` from a tuple of constants never evaluate to the values of those constants -/
theorem apart_ne (ι : Interp) (ρ : VEnv) : ∀ (args cs : List Expr) (ws : List Val),
    apart args cs = true → denList ι ρ args = some ws → cs.map constVal ≠ ws.map some
  | [], [], _, h, _ => by simp [apart] at h
  | [], _ :: _, ws, _, hd => by
    rw [denList_nil] at hd
    cases hd
    simp
  | a :: as, [], ws, _, hd => by
    rw [denList_cons] at hd
    cases h1 : den ι ρ a with
    | none => rw [h1] at hd; simp [consOpt] at hd
    | some w =>
      cases h2 : denList ι ρ as with
      | none => rw [h1, h2] at hd; simp [consOpt] at hd
      | some ws' =>
        rw [h1, h2] at hd
        simp only [consOpt, Option.some.injEq] at hd
        subst hd
        simp
  | a :: as, c :: cs, ws, h, hd => by
    rw [denList_cons] at hd
    cases h1 : den ι ρ a with
    | none => rw [h1] at hd; simp [consOpt] at hd
    | some w =>
      cases h2 : denList ι ρ as with
      | none => rw [h1, h2] at hd; simp [consOpt] at hd
      | some ws' =>
        rw [h1, h2] at hd
        simp only [consOpt, Option.some.injEq] at hd
        subst hd
        simp only [apart, Bool.or_eq_true] at h
        intro heq
        simp only [List.map_cons, List.cons.injEq] at heq
        rcases h with h | h
        · cases ha : constVal a with
          | none => simp [ha] at h
          | some x =>
            cases hc : constVal c with
            | none => simp [ha, hc] at h
            | some y =>
              simp only [ha, hc, decide_eq_true_eq] at h
              have := den_const ι ρ a x ha
              rw [h1] at this
              rw [hc] at heq
              exact h ((Option.some.inj this).symm.trans (Option.some.inj heq.1).symm)
        · exact apart_ne ι ρ as cs ws' h h2 heq.2

/-- what relates the old interpretation/environment to the updated ones, w.r.t. the pairs `σ`
    still active at the current position -/
structure Inv (ι ι' : Interp) (σ : Subst) (ρ ρ' : VEnv) : Prop where
  fn : ι'.fn = ι.fn
  dom : ι'.dom = ι.dom
  key : ∀ k v, σ.lookup k = some v → den ι' ρ' k = den ι ρ v
  par : ∀ n, (∀ kv ∈ σ, ∀ t, kv.1 ≠ .leaf (.param n t)) → ι'.par n = ι.par n
  var : ∀ x, σ.lookup (.leaf (.var x)) = none → VEnv.get ρ' x = VEnv.get ρ x
  fl : ∀ f as, (∀ kv ∈ σ, ∀ cs, kv.1 = .app (.fluent f) cs → cs.map constVal ≠ as.map some) →
    ι'.fl f as = ι.fl f as

theorem inv_nil_den (ι ι' : Interp) (ρ ρ' : VEnv) (h : Inv ι ι' [] ρ ρ') (e : Expr) :
    den ι ρ e = den ι' ρ' e := by
  have hι : ι' = ι := by
    apply Interp.ext' ι ι'
    · funext f as; exact h.fl f as (by simp)
    · exact h.fn
    · funext n; exact h.par n (by simp)
    · exact h.dom
  subst hι
  exact den_congr_env ι' e ρ ρ' (fun x _ => (h.var x rfl).symm)

theorem mem_keptUnder_of_closed (vs : List Var) (σ : Subst) (kv : Expr × Expr) (h : kv ∈ σ)
    (hc : freeVars kv.1 = []) : kv ∈ keptUnder vs σ := by
  unfold keptUnder
  rw [List.mem_filter]
  exact ⟨h, by rw [hc]; rfl⟩

theorem mem_of_mem_keptUnder (vs : List Var) (σ : Subst) (kv : Expr × Expr) (h : kv ∈ keptUnder vs σ) :
    kv ∈ σ := by
  unfold keptUnder at h
  exact (List.mem_filter.1 h).1

theorem lookup_keptUnder (vs : List Var) (σ : Subst) (k : Expr) :
    (keptUnder vs σ).lookup k
      = if (freeVars k).all (fun m => !vs.contains m) then σ.lookup k else none :=
  lookup_filter_key (fun k => (freeVars k).all (fun m => !vs.contains m)) k σ

/-- the invariant is preserved when the walk enters a quantifier whose variables no value mentions -/
theorem inv_under (ι ι' : Interp) (σ : Subst) (ρ ρ' : VEnv) (vs : List Var) (a : VEnv)
    (h : Inv ι ι' σ ρ ρ') (ha : a ∈ assignments ι vs)
    (hcap : ∀ kv ∈ σ, ∀ x ∈ freeVars kv.2, x ∉ vs) :
    Inv ι ι' (keptUnder vs σ) (a ++ ρ) (a ++ ρ') := by
  have ha' : a ∈ assignments ι' vs := by rw [assignments_congr ι ι' h.dom]; exact ha
  refine ⟨h.fn, h.dom, ?_, ?_, ?_, ?_⟩
  · intro k v hk
    rw [lookup_keptUnder] at hk
    by_cases hact : (freeVars k).all (fun m => !vs.contains m) = true
    · rw [if_pos hact] at hk
      rw [den_under_irrelevant ι' vs a ρ' k ha' ((active_iff vs k).1 hact), h.key k v hk,
        den_under_irrelevant ι vs a ρ v ha (hcap (k, v) (mem_of_lookup_eq_some σ k v hk))]
    · rw [if_neg hact] at hk; cases hk
  · intro n hn
    apply h.par n
    intro kv hkv t heq
    exact hn kv (mem_keptUnder_of_closed vs σ kv hkv (by rw [heq]; simp [freeVars])) t heq
  · intro x hx
    by_cases hv : x ∈ vs
    · rw [get_under_mem ι vs a ρ' x ha hv, get_under_mem ι vs a ρ x ha hv]
    · rw [get_under_not_mem ι vs a ρ' x ha hv, get_under_not_mem ι vs a ρ x ha hv]
      apply h.var x
      rw [lookup_keptUnder, if_pos (by simp [freeVars, hv])] at hx
      exact hx
  · intro f as hf
    apply h.fl f as
    intro kv hkv cs heq hvals
    refine hf kv (mem_keptUnder_of_closed vs σ kv hkv ?_) cs heq hvals
    rw [heq, freeVars, freeVarsList_consts cs as hvals]

theorem sepAtom_mono (σ σ' : Subst) (hsub : ∀ kv ∈ σ', kv ∈ σ) (t : Expr) (h : atomSep σ t = true) :
    atomSep σ' t = true := by
  unfold atomSep at h ⊢
  split at h <;> rename_i heq
  · simp only [List.all_eq_true] at h ⊢
    intro kv hkv; exact h kv (hsub kv hkv)
  · simp only [List.all_eq_true] at h ⊢
    intro kv hkv; exact h kv (hsub kv hkv)
  · rfl

mutual
theorem sepAll_mono (σ σ' : Subst) (hsub : ∀ kv ∈ σ', kv ∈ σ) : ∀ (e : Expr),
    sepAll σ e = true → sepAll σ' e = true
  | .leaf l, h => by
    rw [sepAll] at h ⊢
    exact sepAtom_mono σ σ' hsub _ h
  | .app op args, h => by
    rw [sepAll, Bool.and_eq_true] at h ⊢
    exact ⟨sepAtom_mono σ σ' hsub _ h.1, sepAllList_mono σ σ' hsub args h.2⟩
  | .quant q vs b, h => by
    rw [sepAll] at h ⊢
    exact sepAll_mono σ σ' hsub b h
theorem sepAllList_mono (σ σ' : Subst) (hsub : ∀ kv ∈ σ', kv ∈ σ) : ∀ (es : List Expr),
    sepAllList σ es = true → sepAllList σ' es = true
  | [], _ => by rw [sepAllList]
  | e :: es, h => by
    rw [sepAllList, Bool.and_eq_true] at h ⊢
    exact ⟨sepAll_mono σ σ' hsub e h.1, sepAllList_mono σ σ' hsub es h.2⟩
end

/-- a parameter that is not a key and is separated from the keys has no key of its name -/
theorem no_param_key (σ : Subst) (n : String) (t : Ty)
    (hsep : atomSep σ (.leaf (.param n t)) = true) (hnone : σ.lookup (.leaf (.param n t)) = none) :
    ∀ kv ∈ σ, ∀ t', kv.1 ≠ .leaf (.param n t') := by
  intro kv hkv t' heq
  simp only [atomSep, List.all_eq_true] at hsep
  have := hsep kv hkv
  rw [heq] at this
  simp only [bne_self_eq_false, Bool.false_or, beq_iff_eq] at this
  subst this
  exact (lookup_eq_none_iff_forall σ _).1 hnone kv hkv heq

/-- a fluent application that is not a key and is separated from the keys never evaluates its
    arguments to the constants of a key over the same fluent -/
theorem no_fluent_key (ι : Interp) (ρ : VEnv) (σ : Subst) (f : FluentRef) (args : List Expr) (ws : List Val)
    (hsep : atomSep σ (.app (.fluent f) args) = true) (hnone : σ.lookup (.app (.fluent f) args) = none)
    (hd : denList ι ρ args = some ws) :
    ∀ kv ∈ σ, ∀ cs, kv.1 = .app (.fluent f) cs → cs.map constVal ≠ ws.map some := by
  intro kv hkv cs heq
  simp only [atomSep, List.all_eq_true] at hsep
  have := hsep kv hkv
  rw [heq] at this
  simp only [bne_self_eq_false, Bool.false_or, Bool.or_eq_true, decide_eq_true_eq] at this
  rcases this with h | h
  · subst h
    exact absurd heq ((lookup_eq_none_iff_forall σ _).1 hnone kv hkv)
  · exact apart_ne ι ρ args cs ws h hd

/-- `noCapture`, as a proposition -/
def NoCap (σ : Subst) (bound : List Var) : Prop := ∀ kv ∈ σ, ∀ x ∈ freeVars kv.2, x ∉ bound

theorem NoCap.mono {σ σ' : Subst} {b b' : List Var} (h : NoCap σ b) (hs : ∀ kv ∈ σ', kv ∈ σ)
    (hb : ∀ x ∈ b', x ∈ b) : NoCap σ' b' :=
  fun kv hkv x hx hxb => h kv (hs kv hkv) x hx (hb x hxb)

mutual
theorem sem_core (ι ι' : Interp) : ∀ (e : Expr) (σ : Subst) (ρ ρ' : VEnv),
    Inv ι ι' σ ρ ρ' → sepAll σ e = true → NoCap σ (boundVars e) → CollapseOK ι σ e →
    den ι ρ (subst σ e) = den ι' ρ' e
  | .leaf l, σ, ρ, ρ', hinv, hsep, _, _ => by
    cases h : σ.lookup (.leaf l) with
    | some v => rw [subst_of_lookup_some _ _ _ h, hinv.key _ _ h]
    | none =>
      rw [subst_leaf_none _ _ h, den_leaf, den_leaf]
      rw [sepAll] at hsep
      cases l with
      | param n t => exact (hinv.par n (no_param_key σ n t hsep h)).symm
      | var x => exact (hinv.var x h).symm
      | _ => rfl
  | .app op args, σ, ρ, ρ', hinv, hsep, hcap, hcol => by
    cases h : σ.lookup (.app op args) with
    | some v => rw [subst_of_lookup_some _ _ _ h, hinv.key _ _ h]
    | none =>
      rw [sepAll, Bool.and_eq_true] at hsep
      rw [CollapseOK] at hcol
      obtain ⟨hcl, hrb⟩ := hcol h
      rw [boundVars] at hcap
      rw [subst_app_none _ _ _ h, hrb ρ, den_app, den_app,
        sem_core_list ι ι' args σ ρ ρ' hinv hsep.2 hcap hcl]
      cases hd : denList ι' ρ' args with
      | none => rfl
      | some ws =>
        show denOp ι op ws = denOp ι' op ws
        apply denOp_congr ι ι' op ws _ hinv.fn.symm
        intro f hf
        subst hf
        exact (hinv.fl f ws (no_fluent_key ι' ρ' σ f args ws hsep.1 h hd)).symm
  | .quant q vs b, σ, ρ, ρ', hinv, hsep, hcap, hcol => by
    cases h : σ.lookup (.quant q vs b) with
    | some v => rw [subst_of_lookup_some _ _ _ h, hinv.key _ _ h]
    | none =>
      rw [sepAll] at hsep
      rw [boundVars] at hcap
      rw [CollapseOK] at hcol
      have hcapvs : ∀ kv ∈ σ, ∀ x ∈ freeVars kv.2, x ∉ vs :=
        fun kv hkv x hx hv => hcap kv hkv x hx (List.mem_append_left _ hv)
      rw [subst_quant_none _ _ _ _ h, den_quant, den_quant, assignments_congr ι ι' hinv.dom]
      congr 2
      apply List.map_congr_left
      intro a ha
      have hinv' := inv_under ι ι' σ ρ ρ' vs a hinv ha hcapvs
      by_cases hemp : (keptUnder vs σ).isEmpty = true
      · rw [if_pos hemp]
        rw [List.isEmpty_iff] at hemp
        rw [hemp] at hinv'
        exact inv_nil_den ι ι' _ _ hinv' b
      · rw [if_neg hemp]
        exact sem_core ι ι' b (keptUnder vs σ) (a ++ ρ) (a ++ ρ') hinv'
          (sepAll_mono σ _ (mem_of_mem_keptUnder vs σ) b hsep)
          (hcap.mono (mem_of_mem_keptUnder vs σ) (fun x hx => List.mem_append_right _ hx))
          (hcol h (by simpa using hemp))
theorem sem_core_list (ι ι' : Interp) : ∀ (es : List Expr) (σ : Subst) (ρ ρ' : VEnv),
    Inv ι ι' σ ρ ρ' → sepAllList σ es = true → NoCap σ (boundVarsList es) → CollapseOKList ι σ es →
    denList ι ρ (substList σ es) = denList ι' ρ' es
  | [], σ, ρ, ρ', _, _, _, _ => by rw [substList_nil, denList_nil, denList_nil]
  | e :: es, σ, ρ, ρ', hinv, hsep, hcap, hcol => by
    rw [sepAllList, Bool.and_eq_true] at hsep
    rw [boundVarsList] at hcap
    rw [CollapseOKList] at hcol
    rw [substList_cons, denList_cons, denList_cons,
      sem_core ι ι' e σ ρ ρ' hinv hsep.1
        (hcap.mono (fun _ h => h) (fun x hx => List.mem_append_left _ hx)) hcol.1,
      sem_core_list ι ι' es σ ρ ρ' hinv hsep.2
        (hcap.mono (fun _ h => h) (fun x hx => List.mem_append_right _ hx)) hcol.2]
end


/-! ### the concrete updated interpretation satisfies the invariant -/

theorem find?_key_lookup (p : Expr → Bool) (k : Expr) (hp : p k = true) : ∀ (σ : Subst),
    (∀ kv ∈ σ, p kv.1 = true → kv.1 = k) →
    (σ.find? (fun kv => p kv.1)).map (fun kv => kv.2) = σ.lookup k
  | [], _ => by simp [List.lookup]
  | (k', v') :: σ, h => by
    have ih := find?_key_lookup p k hp σ (fun kv hkv => h kv (List.mem_cons_of_mem _ hkv))
    by_cases hk : k' = k
    · subst hk
      simp [List.find?, hp, List.lookup]
    · have hpk : p k' = false := by
        cases hpk : p k' with
        | false => rfl
        | true => exact absurd (h (k', v') List.mem_cons_self hpk) hk
      have hb : (k == k') = false := by simpa using (fun e => hk e.symm)
      simp only [List.find?, hpk, List.lookup, hb]
      exact ih

theorem isParNamed_iff (n : String) (k : Expr) :
    isParNamed n k = true ↔ ∃ t, k = .leaf (.param n t) := by
  unfold isParNamed
  split
  · rename_i n' t
    simp only [beq_iff_eq]
    constructor
    · intro h; subst h; exact ⟨t, rfl⟩
    · rintro ⟨t', h⟩; injection h with h; injection h with h1 h2
  · rename_i hne
    constructor
    · intro h; cases h
    · rintro ⟨t, h⟩; exact absurd h (hne n t)

theorem isFlKey_iff (f : FluentRef) (as : List Val) (k : Expr) :
    isFlKey f as k = true ↔ ∃ cs, k = .app (.fluent f) cs ∧ cs.map constVal = as.map some := by
  unfold isFlKey
  split
  · rename_i f' cs
    simp only [Bool.and_eq_true, beq_iff_eq, decide_eq_true_eq]
    constructor
    · rintro ⟨h1, h2⟩; subst h1; exact ⟨cs, rfl, h2⟩
    · rintro ⟨cs', h, h2⟩
      injection h with h3 h4
      injection h3 with h3
      subst h3 h4
      exact ⟨rfl, h2⟩
  · rename_i hne
    constructor
    · intro h; cases h
    · rintro ⟨cs, h, _⟩; exact absurd h (hne f cs)

theorem varKey?_eq_some (k : Expr) (x : Var) : varKey? k = some x ↔ k = .leaf (.var x) := by
  unfold varKey?
  split
  · rename_i y
    constructor
    · intro h; injection h with h; subst h; rfl
    · intro h; injection h with h; injection h with h; subst h; rfl
  · rename_i hne
    constructor
    · intro h; cases h
    · intro h; exact absurd h (hne x)

theorem get_updEnv (ι : Interp) (ρ : VEnv) : ∀ (σ : Subst), VarValuesDefined ι ρ σ → ∀ x : Var,
    VEnv.get (updEnv ι ρ σ) x
      = (match σ.lookup (.leaf (.var x)) with
         | some v => den ι ρ v
         | none => VEnv.get ρ x)
  | [], _, x => by simp [updEnv, List.lookup]
  | (k, v) :: σ, hdef, x => by
    have ih := get_updEnv ι ρ σ (fun kv hkv => hdef kv (List.mem_cons_of_mem _ hkv)) x
    unfold updEnv at ih ⊢
    rw [List.filterMap_cons]
    cases hk : varKey? k with
    | none =>
      have hne : ((Expr.leaf (.var x)) == k) = false := by
        cases hb : ((Expr.leaf (.var x)) == k) with
        | false => rfl
        | true =>
          have : Expr.leaf (.var x) = k := by simpa using hb
          rw [← this] at hk
          simp [varKey?] at hk
      simp only [List.lookup, hne]
      exact ih
    | some y =>
      have hky := (varKey?_eq_some k y).1 hk
      subst hky
      obtain ⟨w, hw⟩ := Option.isSome_iff_exists.1 (hdef (_, v) List.mem_cons_self y rfl)
      simp only [hw, Option.map, List.cons_append]
      rw [VEnv.get_cons]
      by_cases hyx : y = x
      · subst hyx
        simp [List.lookup, hw]
      · have hne : ((Expr.leaf (.var x)) == (Expr.leaf (.var y))) = false := by
          simpa using (fun e => hyx e.symm)
        rw [if_neg hyx]
        simp only [List.lookup, hne]
        exact ih

theorem inv_top (ι : Interp) (ρ : VEnv) (σ : Subst)
    (hkeys : σ.all (fun kv => isSimpleKey kv.1) = true)
    (hsepK : σ.all (fun kv => atomSep σ kv.1) = true)
    (hdef : VarValuesDefined ι ρ σ) :
    Inv ι (updInterp ι ρ σ) σ ρ (updEnv ι ρ σ) := by
  rw [List.all_eq_true] at hkeys hsepK
  refine ⟨rfl, rfl, ?_, ?_, ?_, ?_⟩
  · intro k v hk
    have hmem := mem_of_lookup_eq_some σ k v hk
    have hs := hkeys _ hmem
    have hsep := hsepK _ hmem
    simp only at hs hsep
    cases k with
    | leaf l =>
      cases l with
      | param n t =>
        have huniq : ∀ kv ∈ σ, isParNamed n kv.1 = true → kv.1 = .leaf (.param n t) := by
          intro kv hkv hp
          obtain ⟨t', ht'⟩ := (isParNamed_iff n kv.1).1 hp
          simp only [atomSep, List.all_eq_true] at hsep
          have := hsep kv hkv
          rw [ht'] at this
          simp only [bne_self_eq_false, Bool.false_or, beq_iff_eq] at this
          rw [ht', this]
        have hf := find?_key_lookup (isParNamed n) (.leaf (.param n t)) (by simp [isParNamed]) σ huniq
        rw [hk] at hf
        rw [den_leaf]
        show (updInterp ι ρ σ).par n = den ι ρ v
        simp only [updInterp]
        cases hfind : σ.find? (fun kv => isParNamed n kv.1) with
        | none => rw [hfind] at hf; cases hf
        | some kv =>
          rw [hfind] at hf
          simp only [Option.map, Option.some.injEq] at hf
          simp only [hf]
      | var x =>
        rw [den_leaf]
        show VEnv.get (updEnv ι ρ σ) x = den ι ρ v
        rw [get_updEnv ι ρ σ hdef x, hk]
      | _ => simp [isSimpleKey] at hs
    | app op cs =>
      cases op with
      | fluent f =>
        simp only [isSimpleKey] at hs
        obtain ⟨as, has⟩ := exists_vals cs hs
        have huniq : ∀ kv ∈ σ, isFlKey f as kv.1 = true → kv.1 = .app (.fluent f) cs := by
          intro kv hkv hp
          obtain ⟨cs', hcs', hv'⟩ := (isFlKey_iff f as kv.1).1 hp
          simp only [atomSep, List.all_eq_true] at hsep
          have := hsep kv hkv
          rw [hcs'] at this
          simp only [bne_self_eq_false, Bool.false_or, Bool.or_eq_true, decide_eq_true_eq] at this
          rcases this with h | h
          · rw [hcs', h]
          · exact absurd (has.trans hv'.symm) (apart_map_ne cs cs' h)
        have hf := find?_key_lookup (isFlKey f as) (.app (.fluent f) cs)
          ((isFlKey_iff f as _).2 ⟨cs, rfl, has⟩) σ huniq
        rw [hk] at hf
        rw [den_app, denList_consts _ _ cs as has]
        show (updInterp ι ρ σ).fl f as = den ι ρ v
        simp only [updInterp]
        cases hfind : σ.find? (fun kv => isFlKey f as kv.1) with
        | none => rw [hfind] at hf; cases hf
        | some kv =>
          rw [hfind] at hf
          simp only [Option.map, Option.some.injEq] at hf
          simp only [hf]
      | _ => simp [isSimpleKey] at hs
    | quant q vs b => simp [isSimpleKey] at hs
  · intro n hn
    show (updInterp ι ρ σ).par n = ι.par n
    simp only [updInterp]
    have : σ.find? (fun kv => isParNamed n kv.1) = none := by
      apply List.find?_eq_none.2
      intro kv hkv hp
      obtain ⟨t, ht⟩ := (isParNamed_iff n kv.1).1 hp
      exact hn kv hkv t ht
    rw [this]
  · intro x hx
    rw [get_updEnv ι ρ σ hdef x, hx]
  · intro f as hf
    show (updInterp ι ρ σ).fl f as = ι.fl f as
    simp only [updInterp]
    have : σ.find? (fun kv => isFlKey f as kv.1) = none := by
      apply List.find?_eq_none.2
      intro kv hkv hp
      obtain ⟨cs, hcs, hv⟩ := (isFlKey_iff f as kv.1).1 hp
      exact hf kv hkv cs hcs hv
    rw [this]

theorem noCap_of_noCapture (σ : Subst) (e : Expr) (h : noCapture σ e = true) : NoCap σ (boundVars e) := by
  unfold noCapture at h
  simp only [List.all_eq_true, Bool.not_eq_true', List.contains_eq_mem, decide_eq_false_iff_not] at h
  intro kv hkv x hx hb
  exact h x hb kv hkv hx

/-- the semantic clause, for the walk itself -/
theorem subst_sem (ι : Interp) (ρ : VEnv) (σ : Subst) (e : Expr)
    (hok : SemOK σ e = true) (hcap : noCapture σ e = true)
    (hdef : VarValuesDefined ι ρ σ) (hcol : CollapseOK ι σ e) :
    den ι ρ (subst σ e) = den (updInterp ι ρ σ) (updEnv ι ρ σ) e := by
  unfold SemOK at hok
  simp only [Bool.and_eq_true] at hok
  exact sem_core ι _ e σ ρ _ (inv_top ι ρ σ hok.1.1 hok.1.2 hdef) hok.2
    (noCap_of_noCapture σ e hcap) hcol

/-- the empty map updates nothing -/
theorem upd_nil (ι : Interp) (ρ : VEnv) : updInterp ι ρ [] = ι ∧ updEnv ι ρ [] = ρ := by
  constructor
  · exact Interp.ext' ι _ rfl rfl rfl rfl
  · rfl

/-! ### binders -/

theorem keptUnder_cons_captured (vs : List Var) (k v : Expr) (σ : Subst) (h : capturedBy vs k = true) :
    keptUnder vs ((k, v) :: σ) = keptUnder vs σ := by
  unfold keptUnder
  rw [List.filter_cons]
  have : ((freeVars k).all fun m => !vs.contains m) = false := by
    unfold capturedBy at h
    rw [List.any_eq_true] at h
    obtain ⟨m, hm, hc⟩ := h
    cases hall : ((freeVars k).all fun m => !vs.contains m) with
    | false => rfl
    | true =>
      rw [List.all_eq_true] at hall
      have := hall m hm
      rw [hc] at this
      cases this
  simp only [this]
  rfl

theorem subst_cons_captured (σ : Subst) (k v : Expr) (q : Quant) (vs : List Var) (b : Expr)
    (hcap : capturedBy vs k = true) (hne : k ≠ .quant q vs b) :
    subst ((k, v) :: σ) (.quant q vs b) = subst σ (.quant q vs b) := by
  have hb : ((Expr.quant q vs b) == k) = false := by simpa using (fun e => hne e.symm)
  have hl : List.lookup (Expr.quant q vs b) ((k, v) :: σ) = List.lookup (Expr.quant q vs b) σ := by
    simp only [List.lookup, hb]
  cases h : List.lookup (Expr.quant q vs b) σ with
  | some w =>
    rw [subst_of_lookup_some _ _ _ (hl.trans h), subst_of_lookup_some _ _ _ h]
  | none =>
    rw [subst_quant_none _ _ _ _ (hl.trans h), subst_quant_none _ _ _ _ h,
      keptUnder_cons_captured vs k v σ hcap]

/-! ### decidable sufficient condition for `CollapseOK` -/

theorem denOp_bool (ι : Interp) (op : Op) (ws : List Val) (v : Val)
    (hop : op = .and ∨ op = .or ∨ op = .not ∨ op = .implies ∨ op = .iff ∨ op = .le ∨ op = .lt ∨ op = .eq)
    (h : denOp ι op ws = some v) : ∃ b, v = .b b := by
  rcases hop with rfl | rfl | rfl | rfl | rfl | rfl | rfl | rfl
  · simp only [denOp] at h
    cases hb : allBools ws with
    | none => rw [hb] at h; cases h
    | some bs => rw [hb] at h; exact ⟨_, (Option.some.inj h).symm⟩
  · simp only [denOp] at h
    cases hb : allBools ws with
    | none => rw [hb] at h; cases h
    | some bs => rw [hb] at h; exact ⟨_, (Option.some.inj h).symm⟩
  all_goals
    match ws, h with
    | [], h => simp [denOp] at h
    | [a], h => cases a <;> simp [denOp] at h <;> exact ⟨_, h.symm⟩
    | [a, b], h => cases a <;> cases b <;> simp [denOp] at h <;> exact ⟨_, h.symm⟩
    | a :: b :: c :: t, h => cases a <;> cases b <;> simp [denOp] at h

theorem denOp_num (ι : Interp) (op : Op) (ws : List Val) (v : Val)
    (hop : op = .plus ∨ op = .times ∨ op = .minus ∨ op = .div)
    (h : denOp ι op ws = some v) : ∃ q, v = .n q := by
  rcases hop with rfl | rfl | rfl | rfl
  · simp only [denOp] at h
    cases hb : allNums ws with
    | none => rw [hb] at h; cases h
    | some bs => rw [hb] at h; exact ⟨_, (Option.some.inj h).symm⟩
  · simp only [denOp] at h
    cases hb : allNums ws with
    | none => rw [hb] at h; cases h
    | some bs => rw [hb] at h; exact ⟨_, (Option.some.inj h).symm⟩
  · match ws, h with
    | [], h => simp [denOp] at h
    | [a], h => cases a <;> simp [denOp] at h
    | [a, b], h => cases a <;> cases b <;> simp [denOp] at h <;> exact ⟨_, h.symm⟩
    | a :: b :: c :: t, h => cases a <;> cases b <;> simp [denOp] at h
  · match ws, h with
    | [], h => simp [denOp] at h
    | [a], h => cases a <;> simp [denOp] at h
    | [a, b], h =>
      cases a <;> cases b <;> simp [denOp] at h
      exact ⟨_, h.2.symm⟩
    | a :: b :: c :: t, h => cases a <;> cases b <;> simp [denOp] at h

theorem boolOrNone_of_boolHead (ι : Interp) (ρ : VEnv) (x : Expr) (h : boolHead x = true) :
    BoolOrNone (den ι ρ x) := by
  intro v hv
  cases x with
  | leaf l =>
    cases l <;> simp [boolHead] at h
    rw [den_leaf] at hv
    exact ⟨_, (Option.some.inj hv).symm⟩
  | app op as =>
    rw [den_app] at hv
    cases hd : denList ι ρ as with
    | none => rw [hd] at hv; cases hv
    | some ws =>
      rw [hd] at hv
      refine denOp_bool ι op ws v ?_ hv
      cases op <;> simp [boolHead] at h <;> simp
  | quant q vs b =>
    rw [den_quant] at hv
    cases hq : allBoolsOpt ((assignments ι vs).map (fun a => den ι (a ++ ρ) b)) with
    | none => rw [hq] at hv; cases hv
    | some bs => rw [hq] at hv; exact ⟨_, (Option.some.inj hv).symm⟩

theorem numOrNone_of_numHead (ι : Interp) (ρ : VEnv) (x : Expr) (h : numHead x = true) :
    NumOrNone (den ι ρ x) := by
  intro v hv
  cases x with
  | leaf l =>
    cases l <;> simp [numHead] at h
    all_goals
      rw [den_leaf] at hv
      exact ⟨_, (Option.some.inj hv).symm⟩
  | app op as =>
    rw [den_app] at hv
    cases hd : denList ι ρ as with
    | none => rw [hd] at hv; cases hv
    | some ws =>
      rw [hd] at hv
      refine denOp_num ι op ws v ?_ hv
      cases op <;> simp [numHead] at h <;> simp
  | quant q vs b => simp [numHead] at h

/-- the node is rebuilt without a collapse, or the collapse keeps an argument whose head fixes its sort -/
def rebuildSafe : Op → List Expr → Bool
  | .and, [x] => boolHead x
  | .or, [x] => boolHead x
  | .plus, [x] => numHead x
  | .times, [x] => numHead x
  | .not, [.app .not [x]] => boolHead x
  | _, _ => true

theorem rebuildOK_of_safe (ι : Interp) (op : Op) (as : List Expr) (h : rebuildSafe op as = true) :
    RebuildOK ι op as := by
  intro ρ
  unfold rebuildSafe at h
  split at h
  · exact den_mkAnd_singleton ι ρ _ (boolOrNone_of_boolHead ι ρ _ h)
  · exact den_mkOr_singleton ι ρ _ (boolOrNone_of_boolHead ι ρ _ h)
  · exact den_mkPlus_singleton ι ρ _ (numOrNone_of_numHead ι ρ _ h)
  · exact den_mkTimes_singleton ι ρ _ (numOrNone_of_numHead ι ρ _ h)
  · exact den_mkNot_not ι ρ _ (boolOrNone_of_boolHead ι ρ _ h)
  · rename_i h1 h2 h3 h4 h5
    cases op with
    | and =>
      match as with
      | [] => exact den_mkAnd_nil ι ρ
      | [x] => exact (h1 x rfl rfl).elim
      | a :: b :: t => rfl
    | or =>
      match as with
      | [] => exact den_mkOr_nil ι ρ
      | [x] => exact (h2 x rfl rfl).elim
      | a :: b :: t => rfl
    | plus =>
      match as with
      | [] => exact den_mkPlus_nil ι ρ
      | [x] => exact (h3 x rfl rfl).elim
      | a :: b :: t => rfl
    | times =>
      match as with
      | [] => exact den_mkTimes_nil ι ρ
      | [x] => exact (h4 x rfl rfl).elim
      | a :: b :: t => rfl
    | not =>
      match as with
      | [] => rfl
      | [x] =>
        cases x with
        | leaf l => rfl
        | quant q vs b => rfl
        | app op' as' =>
          cases op' <;> try rfl
          match as' with
          | [] => rfl
          | [y] => exact (h5 y rfl rfl).elim
          | a :: b :: t => rfl
      | a :: b :: t => rfl
    | _ => rfl

mutual
/-- decidable: every node the walk rebuilds is `rebuildSafe` -/
def collapseSafe (σ : Subst) : Expr → Bool
  | .leaf _ => true
  | .app op args =>
    match σ.lookup (.app op args) with
    | some _ => true
    | none => collapseSafeList σ args && rebuildSafe op (substList σ args)
  | .quant q vs b =>
    match σ.lookup (.quant q vs b) with
    | some _ => true
    | none => (keptUnder vs σ).isEmpty || collapseSafe (keptUnder vs σ) b
def collapseSafeList (σ : Subst) : List Expr → Bool
  | [] => true
  | e :: es => collapseSafe σ e && collapseSafeList σ es
end

mutual
theorem collapseOK_of_safe (ι : Interp) : ∀ (e : Expr) (σ : Subst),
    collapseSafe σ e = true → CollapseOK ι σ e
  | .leaf l, σ, _ => by rw [CollapseOK]; trivial
  | .app op args, σ, h => by
    rw [CollapseOK]
    intro hn
    rw [collapseSafe, hn, Bool.and_eq_true] at h
    exact ⟨collapseOKList_of_safe ι args σ h.1, rebuildOK_of_safe ι op _ h.2⟩
  | .quant q vs b, σ, h => by
    rw [CollapseOK]
    intro hn hemp
    rw [collapseSafe, hn] at h
    simp only [hemp, Bool.false_or] at h
    exact collapseOK_of_safe ι b _ h
theorem collapseOKList_of_safe (ι : Interp) : ∀ (es : List Expr) (σ : Subst),
    collapseSafeList σ es = true → CollapseOKList ι σ es
  | [], σ, _ => by rw [CollapseOKList]; trivial
  | e :: es, σ, h => by
    rw [CollapseOKList]
    rw [collapseSafeList, Bool.and_eq_true] at h
    exact ⟨collapseOK_of_safe ι e σ h.1, collapseOKList_of_safe ι es σ h.2⟩
end


/-! ### `RebuildOK` for the collapsing cases from the sort of the surviving argument
    (for arguments whose head does not fix the sort: fluents, parameters, variables under an
    interpretation that respects their declared types) -/

theorem rebuildOK_and_singleton (ι : Interp) (x : Expr) (h : ∀ ρ, BoolOrNone (den ι ρ x)) :
    RebuildOK ι .and [x] := fun ρ => den_mkAnd_singleton ι ρ x (h ρ)
theorem rebuildOK_or_singleton (ι : Interp) (x : Expr) (h : ∀ ρ, BoolOrNone (den ι ρ x)) :
    RebuildOK ι .or [x] := fun ρ => den_mkOr_singleton ι ρ x (h ρ)
theorem rebuildOK_plus_singleton (ι : Interp) (x : Expr) (h : ∀ ρ, NumOrNone (den ι ρ x)) :
    RebuildOK ι .plus [x] := fun ρ => den_mkPlus_singleton ι ρ x (h ρ)
theorem rebuildOK_times_singleton (ι : Interp) (x : Expr) (h : ∀ ρ, NumOrNone (den ι ρ x)) :
    RebuildOK ι .times [x] := fun ρ => den_mkTimes_singleton ι ρ x (h ρ)
theorem rebuildOK_not_not (ι : Interp) (x : Expr) (h : ∀ ρ, BoolOrNone (den ι ρ x)) :
    RebuildOK ι .not [.app .not [x]] := fun ρ => den_mkNot_not ι ρ x (h ρ)

end UPVerif.Expr
