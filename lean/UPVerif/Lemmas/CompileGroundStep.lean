import UPVerif.Lemmas.CompileGround
import UPVerif.Lemmas.CompileCER
/-!
Grounder (C06 / C07), part 2: THE STEP LEMMA.  A ground action that `create_action_with_given_subs` produced for the
instance `(a, args)` has, in a state where the grounder's simplifier is exact, exactly the successor of the instance
`instAct P a args` (parameters substituted, nothing simplified):

  `ground_step : succOf W g ga.pre (expandEffs P ga.effs) = stepAct W g (instAct P a args)`

What the grounder does to an instance, and why it is invisible to the semantics:
* every effect's target arguments, value and condition are simplified           — `SimpInstExact`;
* an effect whose condition simplifies to FALSE is dropped                      — it never fires (its target must be
  evaluable: `targetSimple`, decidable);
* a condition that simplifies to TRUE makes the effect unconditional            — it always fires;
* the conjunction of the preconditions is simplified and split                  — `preOK_simplifyPre'`;
* a forall effect keeps its bound variables (`groundEffOK`: none of them vanished in the simplification, decidable;
  excluded shape of C06's ASSUMPTIONS: the real grounder then loses the multiplicity of the instances).
-/
namespace UPVerif.Compile.Ground
open UPVerif UPVerif.Compile UPVerif.Expr UPVerif.Sim UPVerif.Spec

/-! ### the simplifier hypothesis -/

/-- the simplifier does not change what any CLOSED INSTANCE of an expression evaluates to in the context `c`:
    substitute objects for ALL its free (forall-bound) variables as `Effect.expand_effect` does, then evaluate.  For an
    expression without free variables this is plain exactness `eval c [] (simp e) = eval c [] e`.  (An idealisation as in
    `SimpExact`, but only for the contexts of the theorem and only on closed instances: property C11 proves exactness of
    the real simplifier's model where the expression is defined.) -/
def SimpInstExact (c : EvalCtx) (P : Problem) (simp : Expr → Expr) : Prop :=
  ∀ (vs : List Var) (objs : List String) (e : Expr), vs.length = objs.length → (∀ x ∈ freeVars e, x ∈ vs) →
    eval c [] (substE (varSubst P vs objs) (simp e)) = eval c [] (substE (varSubst P vs objs) e)

theorem SimpInstExact_id (c : EvalCtx) (P : Problem) : SimpInstExact c P id := fun _ _ _ _ _ => rfl

theorem SimpInstExact.closed {c : EvalCtx} {P : Problem} {simp : Expr → Expr} (h : SimpInstExact c P simp) {e : Expr}
    (hcl : freeVars e = []) : eval c [] (simp e) = eval c [] e :=
  h [] [] e rfl (by rw [hcl]; intro x hx; cases hx)

/-! ### one effect, evaluated: `evalEff` only looks at the evaluations of its three components -/

/-- the target of an effect as a ground key -/
def evalTarget (c : EvalCtx) : Expr → Except EvalErr GKey
  | .app (.fluent f) args =>
    match evalArgs c args with
    | .error x => .error x
    | .ok vs => .ok (f, vs)
  | _ => .error .other

/-- `evalEff` as a function of the evaluated target, condition and value -/
def evalEffCore (k : Except EvalErr GKey) (cnd val : Except EvalErr Val) (kind : EffKind) :
    Except EvalErr (Option Fired) :=
  match k with
  | .error x => .error x
  | .ok k =>
    match cnd with
    | .error x => .error x
    | .ok cv =>
      if cv == .b true then
        match val with
        | .error x => .error x
        | .ok v =>
          match kind with
          | .assign =>
            if k.1.ty == .bool then
              match v with
              | .b b => .ok (some (.setB k b))
              | _ => .error .other
            else .ok (some (.setV k v))
          | .increase => (match v with
            | .n d => .ok (some (.delta k d))
            | _ => .error .other)
          | .decrease => (match v with
            | .n d => .ok (some (.delta k (-d)))
            | _ => .error .other)
      else .ok none

theorem evalTarget_fluent (c : EvalCtx) (f : FluentRef) (as : List Expr) :
    evalTarget c (.app (.fluent f) as) = (match evalArgs c as with
      | .error x => .error x
      | .ok vs => .ok (f, vs)) := rfl

theorem isTrue_eq_tt {e : Expr} (h : e.isTrue = true) : e = Expr.tt := by
  unfold Expr.isTrue at h
  split at h
  · rfl
  · cases h

theorem evalEff_core (c : EvalCtx) (e : Effect) :
    evalEff c e = evalEffCore (evalTarget c e.fluent) (eval c [] e.cond) (eval c [] e.value) e.kind := by
  obtain ⟨fl, v, cnd, k, fa⟩ := e
  unfold evalEff evalEffCore evalTarget
  cases fl with
  | leaf l => rfl
  | quant q vs b => rfl
  | app op args =>
    cases op <;> try rfl
    rename_i f
    dsimp only
    cases evalArgs c args with
    | error x => rfl
    | ok vs =>
      dsimp only
      by_cases hc : (⟨.app (.fluent f) args, v, cnd, k, fa⟩ : Effect).isConditional = true
      · simp only [hc, if_true]
        cases eval c [] cnd with
        | error x => rfl
        | ok cv =>
          dsimp only
          by_cases hcv : cv = .b true
          · subst hcv
            simp only [beq_self_eq_true, if_true]
            cases eval c [] v with
            | error x => rfl
            | ok w =>
              cases k with
              | assign =>
                dsimp only
                by_cases hb : f.ty = .bool
                · simp only [hb, beq_self_eq_true, if_true]
                  cases w <;> rfl
                · have : (f.ty == Ty.bool) = false := by simpa using hb
                  simp only [this]
                  rfl
              | increase => cases w <;> rfl
              | decrease => cases w <;> rfl
          · have : (cv == Val.b true) = false := by simpa using hcv
            simp only [this]
            rfl
      · have hc' : (⟨.app (.fluent f) args, v, cnd, k, fa⟩ : Effect).isConditional = false := by simpa using hc
        have ht : cnd = Expr.tt := by
          apply isTrue_eq_tt
          unfold Effect.isConditional at hc'
          simpa using hc'
        subst ht
        simp only [hc']
        have : eval c [] Expr.tt = .ok (.b true) := rfl
        rw [this]
        simp only [Bool.false_eq_true, if_false, beq_self_eq_true, if_true]
        cases eval c [] v with
        | error x => rfl
        | ok w =>
          cases k with
          | assign =>
            dsimp only
            by_cases hb : f.ty = .bool
            · simp only [hb, beq_self_eq_true, if_true]
              cases w <;> rfl
            · have : (f.ty == Ty.bool) = false := by simpa using hb
              simp only [this]
              rfl
          | increase => cases w <;> rfl
          | decrease => cases w <;> rfl

theorem evalArgs_map_congr (c : EvalCtx) (g h : Expr → Expr) : ∀ (as : List Expr),
    (∀ x ∈ as, eval c [] (g x) = eval c [] (h x)) → evalArgs c (as.map g) = evalArgs c (as.map h)
  | [], _ => rfl
  | a :: as, hall => by
    simp only [List.map_cons, evalArgs]
    rw [hall a (List.mem_cons_self ..), evalArgs_map_congr c g h as (fun x hx => hall x (List.mem_cons_of_mem _ hx))]

theorem eval_const (c : EvalCtx) {a : Expr} (ha : a.isConstant = true) : ∃ v, eval c [] a = .ok v := by
  cases a with
  | leaf l =>
    cases l with
    | boolC b => exact ⟨.b b, rfl⟩
    | intC z => exact ⟨.n z, rfl⟩
    | realC r => exact ⟨.n r, rfl⟩
    | obj n t => exact ⟨.o n, rfl⟩
    | param n t => cases ha
    | var v => cases ha
    | timing r => cases ha
    | present r => cases ha
  | app op bs => cases ha
  | quant q vs b => cases ha

theorem evalArgs_allConst (c : EvalCtx) : ∀ (as : List Expr), (∀ x ∈ as, x.isConstant = true) →
    ∃ vs, evalArgs c as = .ok vs
  | [], _ => ⟨[], rfl⟩
  | a :: as, hall => by
    obtain ⟨vs, hvs⟩ := evalArgs_allConst c as (fun x hx => hall x (List.mem_cons_of_mem _ hx))
    obtain ⟨v, hv⟩ := eval_const c (hall a (List.mem_cons_self ..))
    exact ⟨v :: vs, by simp [evalArgs, hv, hvs]⟩

/-! ### `Effect.expand_effect` in one shape -/

/-- the instance of an effect for one tuple of objects -/
def expInst (P : Problem) (e : Effect) (objs : List String) : Effect :=
  { fluent := substE (varSubst P e.forall_ objs) e.fluent, value := substE (varSubst P e.forall_ objs) e.value,
    cond := substE (varSubst P e.forall_ objs) e.cond, kind := e.kind, forall_ := [] }

theorem expandEffect_eq (P : Problem) (e : Effect) :
    expandEffect P e = (cartesian (e.forall_.map (fun v => tyDomain P v.ty))).map (expInst P e) := by
  unfold expandEffect
  split
  · rename_i h
    have h' : e.forall_ = [] := by simpa using h
    obtain ⟨fl, v, cnd, k, fa⟩ := e
    simp only at h'
    subst h'
    simp [cartesian, expInst, varSubst, substE]
  · rfl

/-- the instance `(a, args)` of an effect (`Compile.instAct`) -/
def instEff (σ : Subst) (e : Effect) : Effect :=
  { fluent := substE σ e.fluent, value := substE σ e.value, cond := substE σ e.cond, kind := e.kind,
    forall_ := e.forall_ }

theorem instAct_effs (P : Problem) (a : Action) (args : List String) :
    (instAct P a args).effs = a.effs.map (instEff (paramSubst P a args)) := rfl

theorem instAct_pre (P : Problem) (a : Action) (args : List String) :
    (instAct P a args).pre = a.pre.map (substE (paramSubst P a args)) := rfl

/-! ### decidable side conditions -/

/-- the target's arguments are constants or bound variables of the effect: it can always be evaluated -/
def targetSimple (fa : List Var) : Expr → Bool
  | .app (.fluent _) as => as.all (fun x => x.isConstant || (match x with
      | .leaf (.var v) => fa.contains v
      | _ => false))
  | _ => false

/-- the free variables of the instance of an effect are bound by its forall (`Effect.__init__` raises
    `UPUnboundedVariablesError` otherwise) -/
def instClosed (σ : Subst) (e : Effect) : Bool :=
  (freeVars (substE σ e.fluent) ++ freeVars (substE σ e.value) ++ freeVars (substE σ e.cond)).all
    (fun x => e.forall_.contains x)

/-- what the step lemma needs of one effect of an instance: it is closed under its forall; a kept effect keeps its
    bound variables, a dropped effect has an evaluable target -/
def groundEffOK (simp : Expr → Expr) (P : Problem) (σ : Subst) (e : Effect) : Bool :=
  instClosed σ e &&
  match createEffect (groundWorld simp P) σ e with
  | .ok (some e') => decide (e'.forall_ = e.forall_)
  | .ok none => targetSimple e.forall_ (substE σ e.fluent)
  | .error _ => true

/-- … and of the instance: its preconditions are closed -/
def groundInstOK (simp : Expr → Expr) (P : Problem) (a : Action) (args : List String) : Bool :=
  decide (freeVars (mkAnd (a.pre.map (substE (paramSubst P a args)))) = []) &&
    a.effs.all (groundEffOK simp P (paramSubst P a args))

theorem instClosed_mem {σ : Subst} {e : Effect} (h : instClosed σ e = true) :
    (∀ x ∈ freeVars (substE σ e.fluent), x ∈ e.forall_) ∧ (∀ x ∈ freeVars (substE σ e.value), x ∈ e.forall_) ∧
    (∀ x ∈ freeVars (substE σ e.cond), x ∈ e.forall_) := by
  unfold instClosed at h
  rw [List.all_eq_true] at h
  refine ⟨fun x hx => ?_, fun x hx => ?_, fun x hx => ?_⟩
  · simpa using h x (by simp [hx])
  · simpa using h x (by simp [hx])
  · simpa using h x (by simp [hx])

theorem mem_freeVarsList_of_mem {x : Var} : ∀ {as : List Expr} {y : Expr}, y ∈ as → x ∈ freeVars y → x ∈ freeVarsList as
  | [], _, h, _ => by cases h
  | a :: as, y, h, hx => by
    simp only [freeVarsList, List.mem_append]
    rcases List.mem_cons.1 h with rfl | h
    · exact Or.inl hx
    · exact Or.inr (mem_freeVarsList_of_mem h hx)

/-! ### one effect of the instance -/

theorem mkEffect_some {fl v c : Expr} {k : EffKind} {fa : List Var} {e' : Effect}
    (h : mkEffect fl v c k fa = some e') : e'.fluent = fl ∧ e'.value = v ∧ e'.cond = c ∧ e'.kind = k := by
  unfold mkEffect at h
  by_cases hc : ((freeVars fl ++ freeVars v ++ freeVars c).all (fun x =>
      (dedupVars (fa.filter (fun x => (freeVars fl ++ freeVars v ++ freeVars c).contains x))).contains x)) = true
  · simp only [hc, if_true, Option.some.injEq] at h
    subst h
    exact ⟨rfl, rfl, rfl, rfl⟩
  · simp only [hc] at h
    cases h

theorem createEffect_some {W : World} {σ : Subst} {e e' : Effect} (h : createEffect W σ e = .ok (some e')) :
    e'.value = W.simp (substE σ e.value) ∧ e'.cond = W.simp (substE σ e.cond) ∧ e'.kind = e.kind ∧
    ((∃ f as, substE σ e.fluent = .app (.fluent f) as ∧ e'.fluent = .app (.fluent f) (as.map W.simp)) ∨
     ((∀ f as, substE σ e.fluent ≠ .app (.fluent f) as) ∧ e'.fluent = substE σ e.fluent)) := by
  unfold createEffect at h
  dsimp only at h
  split at h
  · cases h
  · split at h
    · rename_i e'' hm
      simp only [Except.ok.injEq, Option.some.injEq] at h
      subst h
      obtain ⟨h1, h2, h3, h4⟩ := mkEffect_some hm
      refine ⟨h2, h3, h4, ?_⟩
      rw [h1]
      split
      · rename_i f as hf
        exact Or.inl ⟨f, as, hf, rfl⟩
      · rename_i hne
        exact Or.inr ⟨fun f as hf => hne f as hf, rfl⟩
    · cases h

theorem createEffect_none {W : World} {σ : Subst} {e : Effect} (h : createEffect W σ e = .ok none) :
    W.simp (substE σ e.cond) = Expr.ff := by
  unfold createEffect at h
  dsimp only at h
  split at h
  · assumption
  · split at h <;> cases h

/-- a KEPT effect: instance by instance the ground effect and the effect of `instAct` evaluate alike -/
theorem kept_evalEff {simp : Expr → Expr} {P : Problem} {c : EvalCtx} (hex : SimpInstExact c P simp) {σ : Subst}
    {e e' : Effect} (h : createEffect (groundWorld simp P) σ e = .ok (some e')) (hfa : e'.forall_ = e.forall_)
    (hcl : instClosed σ e = true) (objs : List String) (hl : e.forall_.length = objs.length) :
    evalEff c (expInst P e' objs) = evalEff c (expInst P (instEff σ e) objs) := by
  obtain ⟨hv, hc, hk, hf⟩ := createEffect_some h
  obtain ⟨hcf, hcv, hcc⟩ := instClosed_mem hcl
  rw [evalEff_core, evalEff_core]
  have e1 : (expInst P e' objs).kind = (expInst P (instEff σ e) objs).kind := hk
  have e2 : eval c [] (expInst P e' objs).cond = eval c [] (expInst P (instEff σ e) objs).cond := by
    show eval c [] (substE (varSubst P e'.forall_ objs) e'.cond) = eval c [] (substE (varSubst P e.forall_ objs) (substE σ e.cond))
    rw [hfa, hc]; exact hex _ _ _ hl hcc
  have e3 : eval c [] (expInst P e' objs).value = eval c [] (expInst P (instEff σ e) objs).value := by
    show eval c [] (substE (varSubst P e'.forall_ objs) e'.value) = eval c [] (substE (varSubst P e.forall_ objs) (substE σ e.value))
    rw [hfa, hv]; exact hex _ _ _ hl hcv
  have e4 : evalTarget c (expInst P e' objs).fluent = evalTarget c (expInst P (instEff σ e) objs).fluent := by
    show evalTarget c (substE (varSubst P e'.forall_ objs) e'.fluent) = evalTarget c (substE (varSubst P e.forall_ objs) (substE σ e.fluent))
    rw [hfa]
    rcases hf with ⟨f, as, h1, h2⟩ | ⟨_, h2⟩
    · rw [h1, h2, substE_fluent (varSubst_leafKeys _ _ _), substE_fluent (varSubst_leafKeys _ _ _)]
      rw [evalTarget_fluent, evalTarget_fluent, List.map_map]
      have : evalArgs c (as.map (substE (varSubst P e.forall_ objs) ∘ (groundWorld simp P).simp)) =
          evalArgs c (as.map (substE (varSubst P e.forall_ objs))) :=
        evalArgs_map_congr c _ _ as (fun x hx => hex _ _ x hl (fun y hy => hcf y (by
          rw [h1]; exact mem_freeVarsList_of_mem hx hy)))
      rw [this]
    · rw [h2]
  rw [e1, e2, e3, e4]

/-- a DROPPED effect: no instance of the effect of `instAct` fires (and none fails) -/
theorem dropped_evalEff {simp : Expr → Expr} {P : Problem} {c : EvalCtx} (hex : SimpInstExact c P simp) {σ : Subst}
    {e : Effect} (h : createEffect (groundWorld simp P) σ e = .ok none)
    (ht : targetSimple e.forall_ (substE σ e.fluent) = true) (hcl : instClosed σ e = true) (objs : List String)
    (hl : e.forall_.length = objs.length) : evalEff c (expInst P (instEff σ e) objs) = .ok none := by
  have hc := createEffect_none h
  obtain ⟨_, _, hcc⟩ := instClosed_mem hcl
  rw [evalEff_core]
  have e2 : eval c [] (expInst P (instEff σ e) objs).cond = .ok (.b false) := by
    show eval c [] (substE (varSubst P e.forall_ objs) (substE σ e.cond)) = _
    rw [← hex e.forall_ objs (substE σ e.cond) hl hcc]
    have : simp (substE σ e.cond) = Expr.ff := hc
    rw [this, substE_const (varSubst_keys_nonconst _ _ _) (e := Expr.ff) rfl]
    rfl
  have e4 : ∃ k, evalTarget c (expInst P (instEff σ e) objs).fluent = .ok k := by
    show ∃ k, evalTarget c (substE (varSubst P e.forall_ objs) (substE σ e.fluent)) = .ok k
    unfold targetSimple at ht
    split at ht
    · rename_i f as hf
      rw [hf, substE_fluent (varSubst_leafKeys _ _ _), evalTarget_fluent]
      have hall : ∀ x ∈ as.map (substE (varSubst P e.forall_ objs)), x.isConstant = true := by
        intro x hx
        obtain ⟨y, hy, rfl⟩ := List.mem_map.1 hx
        rw [List.all_eq_true] at ht
        have := ht y hy
        rw [Bool.or_eq_true] at this
        rcases this with hcst | hvar
        · rw [substE_const (varSubst_keys_nonconst _ _ _) hcst]; exact hcst
        · split at hvar
          · rename_i v
            have hv : v ∈ e.forall_ := by simpa using hvar
            obtain ⟨o, ho⟩ := lookup_varSubst P e.forall_ objs v hv hl
            rw [substE_leaf_some ho]
            rfl
          · cases hvar
      obtain ⟨vs, hvs⟩ := evalArgs_allConst c _ hall
      exact ⟨(f, vs), by rw [hvs]⟩
    · cases ht
  obtain ⟨k, hk⟩ := e4
  rw [hk, e2]
  rfl

/-! ### all effects: the fired effects agree -/

/-- the effects `groundEffects` keeps -/
def keptEffs (W : World) (σ : Subst) (es : List Effect) : List Effect :=
  es.filterMap (fun e => match createEffect W σ e with
    | .ok (some e') => some e'
    | _ => none)

theorem groundEffects_some {W : World} {σ : Subst} : ∀ (es : List Effect) (acc : StaticAcc) (out r : List Effect),
    groundEffects W σ es acc out = .ok (some r) →
      r = out ++ keptEffs W σ es ∧ ∀ e ∈ es, ∀ x, createEffect W σ e ≠ .error x
  | [], acc, out, r, h => by
    simp only [groundEffects, Except.ok.injEq, Option.some.injEq] at h
    subst h
    exact ⟨by simp [keptEffs], fun e he => by cases he⟩
  | e :: es, acc, out, r, h => by
    unfold groundEffects at h
    cases hce : createEffect W σ e with
    | error x => rw [hce] at h; cases h
    | ok o =>
      rw [hce] at h
      cases o with
      | none =>
        dsimp only at h
        obtain ⟨h1, h2⟩ := groundEffects_some es acc out r h
        refine ⟨?_, ?_⟩
        · rw [h1]; simp [keptEffs, hce]
        · intro e' he' x
          rcases List.mem_cons.1 he' with rfl | he'
          · rw [hce]; intro hx; cases hx
          · exact h2 e' he' x
      | some e' =>
        dsimp only at h
        split at h
        · cases h
        · rename_i acc' _
          obtain ⟨h1, h2⟩ := groundEffects_some es acc' (out ++ [e']) r h
          refine ⟨?_, ?_⟩
          · rw [h1]; simp [keptEffs, hce]
          · intro e'' he' x
            rcases List.mem_cons.1 he' with rfl | he'
            · rw [hce]; intro hx; cases hx
            · exact h2 e'' he' x

theorem expandEffs_cons (P : Problem) (e : Effect) (es : List Effect) :
    expandEffs P (e :: es) = expandEffect P e ++ expandEffs P es := by
  unfold expandEffs; simp

theorem all_filterMap_map_congr {α : Type} (c : EvalCtx) (l : List α) (f g : α → Effect)
    (h : ∀ x ∈ l, evalEff c (f x) = evalEff c (g x)) :
    (l.map f).all (effOk c) = (l.map g).all (effOk c) ∧
    (l.map f).filterMap (effSel c) = (l.map g).filterMap (effSel c) := by
  induction l with
  | nil => exact ⟨rfl, rfl⟩
  | cons x xs ih =>
    obtain ⟨i1, i2⟩ := ih (fun y hy => h y (List.mem_cons_of_mem _ hy))
    have hx := h x (List.mem_cons_self ..)
    have a1 : effOk c (f x) = effOk c (g x) := by unfold effOk; rw [hx]
    have a2 : effSel c (f x) = effSel c (g x) := by unfold effSel; rw [hx]
    refine ⟨?_, ?_⟩ <;> simp only [List.map_cons, List.all_cons, List.filterMap_cons, a1, a2, i1, i2]

theorem all_filterMap_none {α : Type} (c : EvalCtx) (l : List α) (g : α → Effect)
    (h : ∀ x ∈ l, evalEff c (g x) = .ok none) :
    (l.map g).all (effOk c) = true ∧ (l.map g).filterMap (effSel c) = [] := by
  induction l with
  | nil => exact ⟨rfl, rfl⟩
  | cons x xs ih =>
    obtain ⟨i1, i2⟩ := ih (fun y hy => h y (List.mem_cons_of_mem _ hy))
    have hx := h x (List.mem_cons_self ..)
    have a1 : effOk c (g x) = true := by unfold effOk; rw [hx]
    have a2 : effSel c (g x) = none := by unfold effSel; rw [hx]
    refine ⟨?_, ?_⟩ <;> simp [a1, a2, i1, i2]

/-- the expanded kept effects and the expanded effects of `instAct` evaluate alike, effect by effect -/
theorem kept_vs_inst {simp : Expr → Expr} {P : Problem} {c : EvalCtx} (hex : SimpInstExact c P simp) {σ : Subst} :
    ∀ (es : List Effect), (∀ e ∈ es, ∀ x, createEffect (groundWorld simp P) σ e ≠ .error x) →
      (∀ e ∈ es, groundEffOK simp P σ e = true) →
      (expandEffs P (keptEffs (groundWorld simp P) σ es)).all (effOk c) = (expandEffs P (es.map (instEff σ))).all (effOk c) ∧
      (expandEffs P (keptEffs (groundWorld simp P) σ es)).filterMap (effSel c) =
        (expandEffs P (es.map (instEff σ))).filterMap (effSel c)
  | [], _, _ => ⟨rfl, rfl⟩
  | e :: es, hne, hok => by
    obtain ⟨i1, i2⟩ := kept_vs_inst hex es (fun e' he' => hne e' (List.mem_cons_of_mem _ he'))
      (fun e' he' => hok e' (List.mem_cons_of_mem _ he'))
    have hoke := hok e (List.mem_cons_self ..)
    rw [List.map_cons, expandEffs_cons]
    cases hce : createEffect (groundWorld simp P) σ e with
    | error x => exact absurd hce (hne e (List.mem_cons_self ..) x)
    | ok o =>
      cases o with
      | none =>
        have hk : keptEffs (groundWorld simp P) σ (e :: es) = keptEffs (groundWorld simp P) σ es := by
          simp [keptEffs, hce]
        rw [hk]
        unfold groundEffOK at hoke
        rw [hce, Bool.and_eq_true] at hoke
        obtain ⟨hcl, hoke⟩ := hoke
        dsimp only at hoke
        rw [expandEffect_eq P (instEff σ e)]
        obtain ⟨a1, a2⟩ := all_filterMap_none c (cartesian ((instEff σ e).forall_.map (fun v => tyDomain P v.ty)))
            (expInst P (instEff σ e)) (fun objs hobjs => by
          apply dropped_evalEff hex hce hoke hcl objs
          have := length_of_mem_cartesian hobjs
          simp only [List.length_map] at this
          exact this.symm)
        rw [List.all_append, List.filterMap_append, a1, a2, i1, i2]
        simp
      | some e' =>
        have hk : keptEffs (groundWorld simp P) σ (e :: es) = e' :: keptEffs (groundWorld simp P) σ es := by
          simp [keptEffs, hce]
        rw [hk, expandEffs_cons]
        unfold groundEffOK at hoke
        rw [hce, Bool.and_eq_true] at hoke
        obtain ⟨hcl, hoke⟩ := hoke
        dsimp only at hoke
        have hfa : e'.forall_ = e.forall_ := by simpa using hoke
        rw [expandEffect_eq P e', expandEffect_eq P (instEff σ e)]
        have hdom : (instEff σ e).forall_ = e'.forall_ := hfa.symm
        rw [hdom]
        obtain ⟨a1, a2⟩ := all_filterMap_map_congr c (cartesian (e'.forall_.map (fun v => tyDomain P v.ty)))
          (expInst P e') (expInst P (instEff σ e)) (fun objs hobjs => kept_evalEff hex hce hfa hcl objs (by
            have := length_of_mem_cartesian hobjs
            simp only [List.length_map] at this
            rw [← hfa]; exact this.symm))
        rw [List.all_append, List.filterMap_append, List.all_append, List.filterMap_append, a1, a2, i1, i2]
        exact ⟨rfl, rfl⟩

/-! ### preconditions -/

theorem simplifyPre_eq (W : World) (pre : List Expr) : simplifyPre W pre = simplifyPreWith W.simp pre := by
  unfold simplifyPre simplifyPreWith
  split
  · rfl
  · dsimp only
    generalize W.simp (mkAnd pre) = s
    cases s with
    | leaf l => cases l <;> rfl
    | app op as => cases op <;> rfl
    | quant q vs b => rfl

/-- `check_and_simplify_preconditions` keeps the truth of the conjunction (the simplifier only has to be exact on it) -/
theorem preOK_simplifyPre' {simp : Expr → Expr} (c : EvalCtx) (pre : List Expr)
    (hs : eval c [] (simp (mkAnd pre)) = eval c [] (mkAnd pre)) :
    (match simplifyPreWith simp pre with
     | some pre' => preOK c pre'
     | none => false) = preOK c pre := by
  by_cases h : pre.isEmpty = true
  · have : pre = [] := by simpa using h
    subst this; rfl
  · have key := isTrue_mkAnd c pre
    rw [← hs] at key
    rw [← key]
    unfold simplifyPreWith
    simp only [h, Bool.false_eq_true, if_false]
    generalize simp (mkAnd pre) = s
    split
    · rename_i x pre' hx
      split at hx
      · rename_i b
        split at hx
        · cases hx; rename_i hb; subst hb; rfl
        · cases hx
      · rename_i as
        cases hx
        rw [eval_and_true]; rfl
      · cases hx; simp [preOK]
    · rename_i x hx
      split at hx
      · rename_i b
        split at hx
        · cases hx
        · rename_i hb
          have : b = false := by simpa using hb
          subst this; rfl
      · cases hx
      · cases hx

/-! ### the step lemma -/

theorem ground_unpack {W : World} {a : Action} {args : List String} {ga : GAction}
    (h : Sim.ground W a args = .ok (some ga)) :
    groundEffects W (paramSubst W.P a args) a.effs ⟨[], []⟩ [] = .ok (some ga.effs) ∧
    simplifyPre W (a.pre.map (substE (paramSubst W.P a args))) = some ga.pre := by
  unfold Sim.ground at h
  dsimp only at h
  split at h
  · cases h
  · cases h
  · rename_i effs he
    split at h
    · cases h
    · rename_i pre' hp
      cases h
      exact ⟨he, hp⟩

/-- THE STEP LEMMA -/
theorem ground_step {simp : Expr → Expr} {W : World} {g : St} {a : Action} {args : List String} {ga : GAction}
    (hex : SimpInstExact (ctxOf W g) W.P simp)
    (hg : Sim.ground (groundWorld simp W.P) a args = .ok (some ga))
    (hok : groundInstOK simp W.P a args = true) :
    succOf W g ga.pre (expandEffs W.P ga.effs) = stepAct W g (instAct W.P a args) := by
  unfold groundInstOK at hok
  rw [Bool.and_eq_true, List.all_eq_true] at hok
  obtain ⟨hpc, hok⟩ := hok
  have hpc' : freeVars (mkAnd (a.pre.map (substE (paramSubst W.P a args)))) = [] := by simpa using hpc
  obtain ⟨he, hp⟩ := ground_unpack hg
  have hP : (groundWorld simp W.P).P = W.P := rfl
  rw [hP] at he hp
  obtain ⟨hr, hne⟩ := groundEffects_some a.effs _ _ _ he
  simp only [List.nil_append] at hr
  have hstep : stepAct W g (instAct W.P a args) =
      succOf W g (instAct W.P a args).pre (expandEffs W.P (instAct W.P a args).effs) := by
    unfold stepAct
    have : (instAct W.P a args).params.isEmpty = true := rfl
    rw [this]; rfl
  rw [hstep, instAct_effs, instAct_pre]
  apply succOf_congr
  · rw [simplifyPre_eq] at hp
    have := preOK_simplifyPre' (simp := simp) (ctxOf W g) (a.pre.map (substE (paramSubst W.P a args))) (hex.closed hpc')
    have hp' : simplifyPreWith simp (a.pre.map (substE (paramSubst W.P a args))) = some ga.pre := hp
    rw [hp'] at this
    exact this
  · obtain ⟨h1, h2⟩ := kept_vs_inst hex a.effs hne hok
    rw [fired_eq, fired_eq, hr, h1, h2]

end UPVerif.Compile.Ground
