import UPVerif.Lemmas.WellFormedDCR
import UPVerif.Lemmas.DnfLemmas
/-!
Helper lemmas for `Props/C08Models.lean`, part 10: the NNF / DNF walkers of property C12
(`Core/Walkers/Nnf.lean`, `Dnf.lean`) introduce no new symbol — whatever node-local test the nodes of an expression
pass (`holds N`, with the Boolean connectives and constants admitted), the nodes of its normal form pass, provided
the simplifier used inside the DNF walker preserves the test.  No Mathlib.
-/
namespace UPVerif.WF
open UPVerif UPVerif.Expr UPVerif.Compile UPVerif.Declared

/-- the test admits the Boolean connectives with any number of arguments -/
structure NodePred.Bools (N : NodePred) : Prop where
  and : ∀ n, N.op .and n = true
  or : ∀ n, N.op .or n = true
  not : ∀ n, N.op .not n = true

theorem holds_nnfJoin {N : NodePred} (hc : N.Consts) (hb : N.Bools) (p isAnd : Bool) {l : List Expr}
    (h : ∀ e ∈ l, holds N e = true) : holds N (nnfJoin p isAnd l) = true := by
  unfold nnfJoin
  split
  · exact holds_mkAnd hc (hb.and _) h
  · exact holds_mkOr hc (hb.or _) h

theorem holds_pair {N : NodePred} {a b : Expr} (ha : holds N a = true) (hb : holds N b = true) :
    ∀ e ∈ [a, b], holds N e = true := by
  intro e he
  simp only [List.mem_cons, List.not_mem_nil, or_false] at he
  rcases he with rfl | rfl
  · exact ha
  · exact hb

theorem holds_nnf_both {N : NodePred} (hc : N.Consts) (hb : N.Bools) :
    (∀ (p : Bool) (e : Expr), holds N e = true → holds N (nnf p e) = true) ∧
    (∀ (p : Bool) (es : List Expr), (∀ e ∈ es, holds N e = true) → ∀ e' ∈ nnfList p es, holds N e' = true) := by
  apply nnf.mutual_induct
  · intro p x ih h
    rw [nnf]
    exact ih (((holds_app _ _ _).1 h).2 x (by simp))
  · intro p args ih h
    rw [nnf]
    exact holds_nnfJoin hc hb _ _ (ih ((holds_app _ _ _).1 h).2)
  · intro p args ih h
    rw [nnf]
    exact holds_nnfJoin hc hb _ _ (ih ((holds_app _ _ _).1 h).2)
  · intro p a b iha ihb h
    rw [nnf]
    have h' := ((holds_app _ _ _).1 h).2
    exact holds_nnfJoin hc hb _ _ (holds_pair (iha (h' a (by simp))) (ihb (h' b (by simp))))
  · intro p a b iha ihb iha' ihb' h
    rw [nnf]
    have h' := ((holds_app _ _ _).1 h).2
    have ha := h' a (by simp)
    have hbb := h' b (by simp)
    exact holds_nnfJoin hc hb _ _ (holds_pair
      (holds_nnfJoin hc hb _ _ (holds_pair (iha ha) (ihb hbb)))
      (holds_nnfJoin hc hb _ _ (holds_pair (iha' ha) (ihb' hbb))))
  · intro e h1 h2 h3 h4 h5 h
    rw [nnf_atom true e h1 h2 h3 h4 h5]
    exact h
  · intro p e h1 h2 h3 h4 h5 hp h
    rw [nnf_atom p e h1 h2 h3 h4 h5]
    have : p = false := by simpa using hp
    subst this
    exact holds_mkNot (hb.not 1) h
  · intro p _ e' he'
    rw [nnfList] at he'
    cases he'
  · intro p e es ihe ihes h e' he'
    rw [nnfList] at he'
    rcases List.mem_cons.1 he' with rfl | he'
    · exact ihe (h e (by simp))
    · exact ihes (fun x hx => h x (List.mem_cons_of_mem _ hx)) e' he'

theorem holds_nnf {N : NodePred} (hc : N.Consts) (hb : N.Bools) (p : Bool) {e : Expr} (h : holds N e = true) :
    holds N (nnf p e) = true := (holds_nnf_both hc hb).1 p e h

/-- the loop of `walk_and`: every conjunct of every conjunction in the result passes the test -/
theorem holds_dnfAndGo {N : NodePred} (hc : N.Consts) (hb : N.Bools) {simp : Expr → Expr}
    (hs : ∀ e, holds N e = true → holds N (simp e) = true) :
    ∀ (ts : List (List (List Expr))) (acc : DnfL), (∀ t ∈ ts, ∀ x ∈ t.flatten, holds N x = true) →
      (∀ c ∈ acc, ∀ x ∈ c, holds N x = true) → ∀ c ∈ dnfAndGo simp ts acc, ∀ x ∈ c, holds N x = true
  | [], acc, _, hacc => by simpa [dnfAndGo] using hacc
  | t :: ts, acc, hts, hacc => by
    have hsimp : holds N (simp (mkAnd t.flatten)) = true :=
      hs _ (holds_mkAnd hc (hb.and _) (hts t (by simp)))
    have hts' : ∀ t' ∈ ts, ∀ x ∈ t'.flatten, holds N x = true := fun t' h => hts t' (List.mem_cons_of_mem _ h)
    simp only [dnfAndGo]
    split
    · intro c hc' x hx
      simp only [List.mem_singleton] at hc'
      subst hc'
      cases hx
    · split
      · exact holds_dnfAndGo hc hb hs ts acc hts' hacc
      · split
        · rename_i as heq
          apply holds_dnfAndGo hc hb hs ts _ hts'
          intro c hc' x hx
          rcases List.mem_append.1 hc' with hc' | hc'
          · exact hacc c hc' x hx
          · simp only [List.mem_singleton] at hc'
            subst hc'
            rw [heq] at hsimp
            exact ((holds_app _ _ _).1 hsimp).2 x hx
        · apply holds_dnfAndGo hc hb hs ts _ hts'
          intro c hc' x hx
          rcases List.mem_append.1 hc' with hc' | hc'
          · exact hacc c hc' x hx
          · simp only [List.mem_singleton] at hc'
            subst hc'
            simp only [List.mem_singleton] at hx
            subst hx
            exact hsimp

theorem holds_dnfWalk_both {N : NodePred} (hc : N.Consts) (hb : N.Bools) {simp : Expr → Expr}
    (hs : ∀ e, holds N e = true → holds N (simp e) = true) :
    (∀ e, holds N e = true → ∀ c ∈ dnfWalk simp e, ∀ x ∈ c, holds N x = true) ∧
    (∀ es, (∀ e ∈ es, holds N e = true) → ∀ d ∈ dnfWalkList simp es, ∀ c ∈ d, ∀ x ∈ c, holds N x = true) := by
  apply dnfWalk.mutual_induct
  · intro args ih h
    rw [dnfWalk]
    apply holds_dnfAndGo hc hb hs _ _ _ (by intro c hc'; cases hc')
    intro t ht x hx
    obtain ⟨c, hct, hxc⟩ := List.mem_flatten.1 hx
    obtain ⟨d, hd, hcd⟩ := mem_product ht c hct
    exact ih ((holds_app _ _ _).1 h).2 d hd c hcd x hxc
  · intro args ih h
    rw [dnfWalk]
    intro c hc' x hx
    obtain ⟨d, hd, hcd⟩ := List.mem_flatten.1 hc'
    exact ih ((holds_app _ _ _).1 h).2 d hd c hcd x hx
  · intro e h1 h2 h
    have : dnfWalk simp e = [[e]] := by
      unfold dnfWalk
      split
      · exact absurd rfl (fun h => h1 _ h)
      · exact absurd rfl (fun h => h2 _ h)
      · rfl
    rw [this]
    intro c hc' x hx
    simp only [List.mem_singleton] at hc'
    subst hc'
    simp only [List.mem_singleton] at hx
    subst hx
    exact h
  · intro _ d hd
    rw [dnfWalkList] at hd
    cases hd
  · intro e es ihe ihes h d hd
    rw [dnfWalkList] at hd
    rcases List.mem_cons.1 hd with rfl | hd
    · exact ihe (h e (by simp))
    · exact ihes (fun x hx => h x (List.mem_cons_of_mem _ hx)) d hd

/-- `Dnf.get_dnf_expression` -/
theorem holds_dnf {N : NodePred} (hc : N.Consts) (hb : N.Bools) {simp : Expr → Expr}
    (hs : ∀ e, holds N e = true → holds N (simp e) = true) {e : Expr} (h : holds N e = true) :
    holds N (dnf simp e) = true := by
  unfold dnf
  apply holds_mkOr hc (hb.or _)
  intro x hx
  obtain ⟨c, hcw, rfl⟩ := List.mem_map.1 hx
  exact holds_mkAnd hc (hb.and _) ((holds_dnfWalk_both hc hb hs).1 _ (holds_nnf hc hb true h) c hcw)

theorem wfNode_bools (D : Decls) (ps : List (String × Ty)) : (wfNode D ps).Bools :=
  ⟨fun _ => rfl, fun _ => rfl, fun _ => rfl⟩

/-- the DNF walker of C12 introduces no new symbol if its simplifier introduces none -/
theorem DnfWF_dnf {simp : Expr → Expr} (hs : SimpWF simp) : DnfWF (dnf simp) :=
  fun D ps _ h => holds_dnf (wfNode_consts D ps) (wfNode_bools D ps) (hs D ps) h

end UPVerif.WF
