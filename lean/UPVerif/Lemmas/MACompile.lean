import UPVerif.Core.Compile.MACond
import UPVerif.Core.Compile.MADisj
import UPVerif.Lemmas.MADisjLemmas
/-!
Helper lemmas for `Props/C37.lean`, structural side: what the agent loops of the two compilers
produce, independently of the names they choose.
-/
namespace UPVerif.MA
open UPVerif UPVerif.Expr UPVerif.Sim

/-- the two lists have the same length and corresponding elements are related -/
inductive ListRel {α β : Type} (R : α → β → Prop) : List α → List β → Prop
  | nil : ListRel R [] []
  | cons {a : α} {b : β} {as : List α} {bs : List β} : R a b → ListRel R as bs → ListRel R (a :: as) (b :: bs)

theorem ListRel.mem_left {α β : Type} {R : α → β → Prop} : ∀ {as : List α} {bs : List β}, ListRel R as bs →
    ∀ a ∈ as, ∃ b ∈ bs, R a b
  | _, _, .nil, a, ha => by cases ha
  | _, _, .cons h t, a, ha => by
    rcases List.mem_cons.1 ha with rfl | ha'
    · exact ⟨_, List.mem_cons_self .., h⟩
    · obtain ⟨b, hb, hr⟩ := t.mem_left a ha'
      exact ⟨b, List.mem_cons_of_mem _ hb, hr⟩

theorem ListRel.mem_right {α β : Type} {R : α → β → Prop} : ∀ {as : List α} {bs : List β}, ListRel R as bs →
    ∀ b ∈ bs, ∃ a ∈ as, R a b
  | _, _, .nil, b, hb => by cases hb
  | _, _, .cons h t, b, hb => by
    rcases List.mem_cons.1 hb with rfl | hb'
    · exact ⟨_, List.mem_cons_self .., h⟩
    · obtain ⟨a, ha, hr⟩ := t.mem_right b hb'
      exact ⟨a, List.mem_cons_of_mem _ ha, hr⟩

/-- a compiled action without its name -/
def CAction.strip (c : CAction) : Option String × List (String × Ty) × List Expr × List Effect :=
  (c.origin, c.act.params, c.act.pre, c.act.effs)
def Proto.strip (p : Proto) : Option String × List (String × Ty) × List Expr × List Effect :=
  (p.origin, p.params, p.body.pre, p.body.effs)

theorem nameProto_strip (static : List String) (acc : List CAction) (p : Proto) :
    (nameProto static acc p).strip = p.strip := rfl

/-- naming changes nothing but names -/
theorem assignNames_prefix (static : List String) : ∀ (ps : List Proto) (acc : List CAction),
    ∃ news, assignNames static ps acc = acc ++ news ∧ news.map CAction.strip = ps.map Proto.strip
  | [], acc => ⟨[], by simp [assignNames], rfl⟩
  | p :: ps, acc => by
    obtain ⟨news, h1, h2⟩ := assignNames_prefix static ps (acc ++ [nameProto static acc p])
    refine ⟨nameProto static acc p :: news, ?_, ?_⟩
    · rw [assignNames, h1, List.append_assoc]; rfl
    · simp [h2, nameProto_strip]

theorem assignNames_strip (static : List String) (ps : List Proto) (acc : List CAction) :
    (assignNames static ps acc).map CAction.strip = acc.map CAction.strip ++ ps.map Proto.strip := by
  obtain ⟨news, h1, h2⟩ := assignNames_prefix static ps acc
  rw [h1, List.map_append, h2]

/-! ### conditional effects remover -/

/-- what one agent's rebuilt action list consists of -/
def CondAgentRel (O : Problem) (simp : Expr → Expr) (ag : Agent) (cag : CAgent) : Prop :=
  cag.name = ag.name ∧ cag.fluents = ag.fluents ∧
  ∃ ps, condProtos O simp ag = some ps ∧ cag.actions.map CAction.strip = ps.map Proto.strip

theorem condAgents_spec (O : Problem) (simp : Expr → Expr) (an : List String) (env : List FluentDecl) :
    ∀ (todo : List Agent) (done out : List CAgent), condAgents O simp an env done todo = some out →
    ∃ news, out = done ++ news ∧ ListRel (CondAgentRel O simp) todo news
  | [], done, out, h => by
    simp only [condAgents, Option.some.injEq] at h
    exact ⟨[], by simp [h], ListRel.nil⟩
  | ag :: todo, done, out, h => by
    unfold condAgents at h
    cases hp : condProtos O simp ag with
    | none => rw [hp] at h; cases h
    | some ps =>
      rw [hp] at h
      simp only at h
      obtain ⟨news, h1, h2⟩ := condAgents_spec O simp an env todo _ out h
      refine ⟨_ :: news, by rw [h1, List.append_assoc]; rfl, ListRel.cons ⟨rfl, rfl, ps, hp, ?_⟩ h2⟩
      rw [assignNames_strip]; rfl

theorem condProtos_go_mem (O : Problem) (simp : Expr → Expr) : ∀ (as : List Action) (ps : List Proto),
    condProtos.go O simp as = some ps →
    ∀ p, p ∈ ps ↔ ∃ a ∈ as, ∃ bs, condBodies simp (Compile.cerExpand O a) = some bs ∧ ∃ b ∈ bs,
      p = { base := a.name, keepName := false, origin := some a.name, params := a.params, body := b }
  | [], ps, h => by
    simp only [condProtos.go, Option.some.injEq] at h
    subst h; simp
  | a :: as, ps, h => by
    unfold condProtos.go at h
    cases hb : condBodies simp (Compile.cerExpand O a) with
    | none => rw [hb] at h; cases h
    | some bs =>
      cases hg : condProtos.go O simp as with
      | none => rw [hb, hg] at h; cases h
      | some rest =>
        rw [hb, hg] at h
        simp only [Option.some.injEq] at h
        subst h
        intro p
        rw [List.mem_append, condProtos_go_mem O simp as rest hg p]
        constructor
        · rintro (hp | ⟨a', ha', hx⟩)
          · obtain ⟨b, hbm, rfl⟩ := List.mem_map.1 hp
            exact ⟨a, List.mem_cons_self .., bs, hb, b, hbm, rfl⟩
          · exact ⟨a', List.mem_cons_of_mem _ ha', hx⟩
        · rintro ⟨a', ha', bs', hb', b, hbm, rfl⟩
          rcases List.mem_cons.1 ha' with rfl | ha''
          · rw [hb] at hb'; cases hb'
            left; exact List.mem_map.2 ⟨b, hbm, rfl⟩
          · right; exact ⟨a', ha'', bs', hb', b, hbm, rfl⟩

/-- the prototypes of one agent: a clone of every unconditional action, and for every conditional
    action one prototype per yielded body — nothing else -/
theorem condProtos_mem {O : Problem} {simp : Expr → Expr} {ag : Agent} {ps : List Proto}
    (h : condProtos O simp ag = some ps) (p : Proto) :
    p ∈ ps ↔
      (∃ a ∈ ag.actions, Action.isConditional a = false ∧
        p = { base := a.name, keepName := true, origin := some a.name, params := a.params, body := ⟨a.pre, a.effs⟩ }) ∨
      (∃ a ∈ ag.actions, Action.isConditional a = true ∧ ∃ bs, condBodies simp (Compile.cerExpand O a) = some bs ∧ ∃ b ∈ bs,
        p = { base := a.name, keepName := false, origin := some a.name, params := a.params, body := b }) := by
  unfold condProtos at h
  simp only [Option.map_eq_some_iff] at h
  obtain ⟨rest, hgo, rfl⟩ := h
  rw [List.mem_append, condProtos_go_mem O simp _ rest hgo p]
  apply or_congr
  · simp only [List.mem_map, List.mem_filter]
    constructor
    · rintro ⟨a, ⟨ha, hc⟩, rfl⟩
      exact ⟨a, ha, by simpa using hc, rfl⟩
    · rintro ⟨a, ha, hc, rfl⟩
      exact ⟨a, ⟨ha, by simp [hc]⟩, rfl⟩
  · constructor
    · rintro ⟨a, ha, hx⟩
      have := List.mem_filter.1 ha
      exact ⟨a, this.1, this.2, hx⟩
    · rintro ⟨a, ha, hc, hx⟩
      exact ⟨a, List.mem_filter.2 ⟨ha, hc⟩, hx⟩

theorem condBodies_mem {simp : Expr → Expr} {a : Action} {bs : List Body}
    (h : condBodies simp a = some bs) (b : Body) :
    b ∈ bs ↔ ∃ p ∈ powerset (List.range (condEffects a).length), condVariant simp a p = some (some b) := by
  unfold condBodies at h
  rw [(collect_some _ bs h).1 b, List.mem_map]

/-! ### disjunctive conditions remover -/

abbrev Stripped := Option String × List (String × Ty) × List Expr × List Effect

/-- a fake action: it maps back to nothing and is what `_create_new_action_with_given_precond` makes of
    one disjunct of a disjunctive shared goal and the effect `fake := true` -/
def IsFake (simp dnfOf : Expr → Expr) (goals : List Expr) (fakes : List FluentRef) (x : Stripped) : Prop :=
  x.1 = none ∧ ∃ γ ∈ goals, isOr (dnfOf (mkAnd [γ])) = true ∧ ∃ n d, fakeRef n ∈ fakes ∧
    d ∈ disjuncts (dnfOf (mkAnd [γ])) ∧
    newActionWithPrecond simp dnfOf [fakeEffect n] d = some (some ⟨x.2.2.1, x.2.2.2⟩)

theorem IsFake.mono {simp dnfOf : Expr → Expr} {goals goals' : List Expr} {fakes fakes' : List FluentRef}
    {x : Stripped} (h : IsFake simp dnfOf goals fakes x) (hg : ∀ γ ∈ goals, γ ∈ goals')
    (hf : ∀ f ∈ fakes, f ∈ fakes') : IsFake simp dnfOf goals' fakes' x := by
  obtain ⟨h1, γ, hγ, ho, n, d, hn, hd, hx⟩ := h
  exact ⟨h1, γ, hg γ hγ, ho, n, d, hf _ hn, hd, hx⟩

/-- what the goal loop has achieved for one goal -/
def GoalDone (simp dnfOf : Expr → Expr) (γ : Expr) (st : GoalAcc) : Prop :=
  (isOr (dnfOf (mkAnd [γ])) = false → dnfOf (mkAnd [γ]) = tt ∨ dnfOf (mkAnd [γ]) ∈ st.goals) ∧
  (isOr (dnfOf (mkAnd [γ])) = true → ∃ n, fakeExp n ∈ st.goals ∧ fakeRef n ∈ st.fakes ∧
    ∃ bodies, collect ((disjuncts (dnfOf (mkAnd [γ]))).map (newActionWithPrecond simp dnfOf [fakeEffect n])) = some bodies ∧
      ∀ b ∈ bodies, ∃ ca ∈ st.acts, ca.origin = none ∧ ca.act.pre = b.pre ∧ ca.act.effs = b.effs)

/-- the goal loop only appends -/
def GoalAcc.Extends (st st' : GoalAcc) : Prop :=
  (∃ x, st'.acts = st.acts ++ x) ∧ (∃ x, st'.goals = st.goals ++ x) ∧ (∃ x, st'.fakes = st.fakes ++ x)

theorem GoalAcc.Extends.refl (st : GoalAcc) : st.Extends st := ⟨⟨[], by simp⟩, ⟨[], by simp⟩, ⟨[], by simp⟩⟩

theorem GoalAcc.Extends.trans {a b c : GoalAcc} (h1 : a.Extends b) (h2 : b.Extends c) : a.Extends c := by
  obtain ⟨⟨x1, e1⟩, ⟨y1, f1⟩, ⟨z1, g1⟩⟩ := h1
  obtain ⟨⟨x2, e2⟩, ⟨y2, f2⟩, ⟨z2, g2⟩⟩ := h2
  exact ⟨⟨x1 ++ x2, by rw [e2, e1, List.append_assoc]⟩, ⟨y1 ++ y2, by rw [f2, f1, List.append_assoc]⟩,
    ⟨z1 ++ z2, by rw [g2, g1, List.append_assoc]⟩⟩

theorem GoalDone.mono {simp dnfOf : Expr → Expr} {γ : Expr} {st st' : GoalAcc} (h : GoalDone simp dnfOf γ st)
    (he : st.Extends st') : GoalDone simp dnfOf γ st' := by
  obtain ⟨⟨x, ex⟩, ⟨y, ey⟩, ⟨z, ez⟩⟩ := he
  refine ⟨fun ho => ?_, fun ho => ?_⟩
  · rcases h.1 ho with h1 | h1
    · exact Or.inl h1
    · right; rw [ey]; exact List.mem_append_left _ h1
  · obtain ⟨n, h1, h2, bodies, h3, h4⟩ := h.2 ho
    refine ⟨n, by rw [ey]; exact List.mem_append_left _ h1, by rw [ez]; exact List.mem_append_left _ h2, bodies, h3, ?_⟩
    intro b hb
    obtain ⟨ca, hca, hx⟩ := h4 b hb
    exact ⟨ca, by rw [ex]; exact List.mem_append_left _ hca, hx⟩

theorem goalLoop_spec (simp dnfOf : Expr → Expr) (static : List FluentDecl → List String) :
    ∀ (γs : List Expr) (st st' : GoalAcc), goalLoop simp dnfOf static γs st = some st' →
    st.Extends st' ∧ (∀ γ ∈ γs, GoalDone simp dnfOf γ st') ∧
    (∃ news, st'.acts = st.acts ++ news ∧ ∀ ca ∈ news, IsFake simp dnfOf γs st'.fakes ca.strip)
  | [], st, st', h => by
    simp only [goalLoop, Option.some.injEq] at h
    subst h
    exact ⟨GoalAcc.Extends.refl _, by simp, [], by simp, by simp⟩
  | γ :: γs, st, st', h => by
    unfold goalLoop at h
    simp only at h
    by_cases ho : isOr (dnfOf (mkAnd [γ])) = true
    · simp only [ho, if_true] at h
      generalize Fresh.getFreshName (static st.env ++ st.acts.map (·.act.name)) fakeFluentBase = fname at h
      cases hc : collect ((disjuncts (dnfOf (mkAnd [γ]))).map (newActionWithPrecond simp dnfOf
          [fakeEffect fname])) with
      | none => rw [hc] at h; cases h
      | some bodies =>
        rw [hc] at h
        simp only at h
        obtain ⟨hext, hdone, news, hnews, hfake⟩ := goalLoop_spec simp dnfOf static γs _ st' h
        obtain ⟨new1, hn1, hs1⟩ := assignNames_prefix (static st.env)
          (bodies.map (fun b => ({ base := fakeActionBase, keepName := false, origin := none, params := [], body := b } : Proto))) st.acts
        -- the intermediate state extends `st`
        have hstep : st.Extends
            { acts := assignNames (static st.env) (bodies.map (fun b => ({ base := fakeActionBase, keepName := false, origin := none, params := [], body := b } : Proto))) st.acts,
              env := st.env ++ [{ ref := fakeRef fname, default := some ff }],
              goals := if st.goals.contains (fakeExp fname) then st.goals
                       else st.goals ++ [fakeExp fname],
              fakes := st.fakes ++ [fakeRef fname] } := by
          refine ⟨⟨new1, hn1⟩, ?_, ⟨_, rfl⟩⟩
          simp only
          split
          · exact ⟨[], by simp⟩
          · exact ⟨_, rfl⟩
        refine ⟨hstep.trans hext, ?_, ?_⟩
        · intro γ' hγ'
          rcases List.mem_cons.1 hγ' with rfl | hγ''
          · -- the goal handled at this step
            apply GoalDone.mono _ hext
            refine ⟨fun hno => (by rw [ho] at hno; cases hno), fun _ => ?_⟩
            refine ⟨fname, ?_, by simp, bodies, hc, ?_⟩
            · simp only
              split
              · rename_i hin; simpa using hin
              · simp
            · intro b hb
              have hmem : (⟨none, [], b.pre, b.effs⟩ : Stripped) ∈ new1.map CAction.strip := by
                rw [hs1, List.map_map]
                exact List.mem_map.2 ⟨b, hb, rfl⟩
              obtain ⟨ca, hca, hstrip⟩ := List.mem_map.1 hmem
              refine ⟨ca, by simp only [hn1]; exact List.mem_append_right _ hca, ?_⟩
              simp only [CAction.strip, Prod.mk.injEq] at hstrip
              exact ⟨hstrip.1, hstrip.2.2.1, hstrip.2.2.2⟩
          · exact hdone γ' hγ''
        · refine ⟨new1 ++ news, by rw [hnews]; simp only [hn1, List.append_assoc], ?_⟩
          intro ca hca
          rcases List.mem_append.1 hca with hca | hca
          · -- created at this step
            have hmem : ca.strip ∈ (bodies.map (fun b => ({ base := fakeActionBase, keepName := false, origin := none, params := [], body := b } : Proto))).map Proto.strip := by
              rw [← hs1]; exact List.mem_map.2 ⟨ca, hca, rfl⟩
            rw [List.map_map] at hmem
            obtain ⟨b, hb, hbe⟩ := List.mem_map.1 hmem
            have hb' := ((collect_some _ bodies hc).1 b).1 hb
            obtain ⟨d, hd, hde⟩ := List.mem_map.1 hb'
            refine ⟨by rw [← hbe]; rfl, γ, List.mem_cons_self .., ho, fname, d, ?_, hd, ?_⟩
            · obtain ⟨_, _, ⟨z, hz⟩⟩ := hext
              rw [hz]; simp
            · rw [hde, ← hbe]; rfl
          · exact (hfake ca hca).mono (fun x hx => List.mem_cons_of_mem _ hx) (fun _ hf => hf)
    · have ho' : isOr (dnfOf (mkAnd [γ])) = false := by simpa using ho
      simp only [ho', Bool.false_eq_true, if_false] at h
      obtain ⟨hext, hdone, news, hnews, hfake⟩ := goalLoop_spec simp dnfOf static γs _ st' h
      have hstep : st.Extends { st with goals := if st.goals.contains (dnfOf (mkAnd [γ])) || dnfOf (mkAnd [γ]) == tt then st.goals else st.goals ++ [dnfOf (mkAnd [γ])] } := by
        refine ⟨⟨[], by simp⟩, ?_, ⟨[], by simp⟩⟩
        simp only
        split
        · exact ⟨[], by simp⟩
        · exact ⟨_, rfl⟩
      refine ⟨hstep.trans hext, ?_, news, hnews, fun ca hca => (hfake ca hca).mono (fun x hx => List.mem_cons_of_mem _ hx) (fun _ hf => hf)⟩
      intro γ' hγ'
      rcases List.mem_cons.1 hγ' with rfl | hγ''
      · apply GoalDone.mono _ hext
        refine ⟨fun _ => ?_, fun hyes => (by rw [ho'] at hyes; cases hyes)⟩
        simp only
        split
        · rename_i hin
          rcases Bool.or_eq_true_iff.1 hin with h1 | h1
          · right; simpa using h1
          · left; simpa using h1
        · right; simp
      · exact hdone γ' hγ''

/-- what the agent loop of the disjunctive-conditions remover has produced for one agent, before the
    resets are appended: the split actions of the agent's own actions, then fake actions; and every
    shared goal is accounted for IN THIS AGENT -/
def DisjRawRel (simp dnfOf : Expr → Expr) (goals : List Expr) (fgoals : List Expr) (fakes : List FluentRef)
    (ag : Agent) (cag : CAgent) : Prop :=
  cag.name = ag.name ∧ cag.fluents = ag.fluents ∧
  (∃ ps news, disjProtos simp dnfOf ag.actions = some ps ∧
    cag.actions.map CAction.strip = ps.map Proto.strip ++ news ∧ ∀ x ∈ news, IsFake simp dnfOf goals fakes x) ∧
  ∀ γ ∈ goals, GoalDone simp dnfOf γ { acts := cag.actions, env := [], goals := fgoals, fakes := fakes }

theorem DisjRawRel.mono {simp dnfOf : Expr → Expr} {goals fg fg' : List Expr} {fk fk' : List FluentRef}
    {ag : Agent} {cag : CAgent} (h : DisjRawRel simp dnfOf goals fg fk ag cag)
    (hg : ∃ x, fg' = fg ++ x) (hf : ∃ x, fk' = fk ++ x) : DisjRawRel simp dnfOf goals fg' fk' ag cag := by
  obtain ⟨h1, h2, ⟨ps, news, h3, h4, h5⟩, h6⟩ := h
  obtain ⟨z, hz⟩ := hf
  refine ⟨h1, h2, ⟨ps, news, h3, h4, fun x hx => (h5 x hx).mono (fun _ h => h) (fun f hf => by rw [hz]; exact List.mem_append_left _ hf)⟩, ?_⟩
  intro γ hγ
  exact (h6 γ hγ).mono ⟨⟨[], by simp⟩, hg, ⟨z, hz⟩⟩

theorem listRel_mono {α β : Type} {R S : α → β → Prop} (h : ∀ a b, R a b → S a b) :
    ∀ {as : List α} {bs : List β}, ListRel R as bs → ListRel S as bs
  | _, _, .nil => .nil
  | _, _, .cons r t => .cons (h _ _ r) (listRel_mono h t)

theorem disjProtos_origin (simp dnfOf : Expr → Expr) : ∀ (as : List Action) (ps : List Proto),
    disjProtos simp dnfOf as = some ps → ∀ p ∈ ps, ∃ a ∈ as, p.origin = some a.name ∧ p.params = a.params ∧
      ∃ bs, disjBodies simp dnfOf a.pre a.effs = some bs ∧ p.body ∈ bs
  | [], ps, h => by
    simp only [disjProtos, Option.some.injEq] at h
    subst h; simp
  | a :: as, ps, h => by
    unfold disjProtos at h
    cases hb : disjBodies simp dnfOf a.pre a.effs with
    | none => rw [hb] at h; cases h
    | some bs =>
      cases hr : disjProtos simp dnfOf as with
      | none => rw [hb, hr] at h; cases h
      | some rest =>
        rw [hb, hr] at h
        simp only [Option.some.injEq] at h
        subst h
        intro p hp
        rcases List.mem_append.1 hp with hp | hp
        · obtain ⟨b, hbm, rfl⟩ := List.mem_map.1 hp
          exact ⟨a, List.mem_cons_self .., rfl, rfl, bs, hb, hbm⟩
        · obtain ⟨a', ha', hx⟩ := disjProtos_origin simp dnfOf as rest hr p hp
          exact ⟨a', List.mem_cons_of_mem _ ha', hx⟩

theorem disjProtos_complete (simp dnfOf : Expr → Expr) : ∀ (as : List Action) (ps : List Proto),
    disjProtos simp dnfOf as = some ps → ∀ a ∈ as, ∃ bs, disjBodies simp dnfOf a.pre a.effs = some bs ∧
      ∀ b ∈ bs, ∃ p ∈ ps, p.origin = some a.name ∧ p.params = a.params ∧ p.body = b
  | [], ps, _, a, ha => by cases ha
  | a0 :: as, ps, h, a, ha => by
    unfold disjProtos at h
    cases hb : disjBodies simp dnfOf a0.pre a0.effs with
    | none => rw [hb] at h; cases h
    | some bs =>
      cases hr : disjProtos simp dnfOf as with
      | none => rw [hb, hr] at h; cases h
      | some rest =>
        rw [hb, hr] at h
        simp only [Option.some.injEq] at h
        subst h
        rcases List.mem_cons.1 ha with rfl | ha'
        · refine ⟨bs, hb, fun b hbm => ⟨_, List.mem_append_left _ (List.mem_map.2 ⟨b, hbm, rfl⟩), rfl, rfl, rfl⟩⟩
        · obtain ⟨bs', hb', hx⟩ := disjProtos_complete simp dnfOf as rest hr a ha'
          refine ⟨bs', hb', fun b hbm => ?_⟩
          obtain ⟨p, hp, hy⟩ := hx b hbm
          exact ⟨p, List.mem_append_right _ hp, hy⟩

theorem disjAgents_spec (simp dnfOf : Expr → Expr) (an : List String) (goals : List Expr) :
    ∀ (todo : List Agent) (st out : DisjAcc), disjAgents simp dnfOf an goals st todo = some out →
    (∃ x, out.goals = st.goals ++ x) ∧ (∃ x, out.fakes = st.fakes ++ x) ∧
    ∃ news, out.done = st.done ++ news ∧ ListRel (DisjRawRel simp dnfOf goals out.goals out.fakes) todo news
  | [], st, out, h => by
    simp only [disjAgents, Option.some.injEq] at h
    subst h
    exact ⟨⟨[], by simp⟩, ⟨[], by simp⟩, [], by simp, .nil⟩
  | ag :: todo, st, out, h => by
    unfold disjAgents at h
    cases hp : disjProtos simp dnfOf ag.actions with
    | none => rw [hp] at h; cases h
    | some ps =>
      rw [hp] at h
      simp only at h
      cases hg : goalLoop simp dnfOf (fun env => staticNames an env st.done ag todo) goals
          { acts := assignNames (staticNames an st.env st.done ag todo) ps [], env := st.env, goals := st.goals, fakes := st.fakes } with
      | none => rw [hg] at h; cases h
      | some r =>
        rw [hg] at h
        simp only at h
        obtain ⟨⟨gx, hgx⟩, ⟨fx, hfx⟩, news, hnews, hrel⟩ := disjAgents_spec simp dnfOf an goals todo _ out h
        obtain ⟨hext, hdone, fnews, hfn, hfake⟩ := goalLoop_spec simp dnfOf _ goals _ r hg
        obtain ⟨⟨_, _⟩, ⟨gy, hgy⟩, ⟨fy, hfy⟩⟩ := hext
        simp only at hgy hfy hgx hfx hfn
        refine ⟨⟨gy ++ gx, by rw [hgx, hgy, List.append_assoc]⟩, ⟨fy ++ fx, by rw [hfx, hfy, List.append_assoc]⟩,
          _ :: news, by rw [hnews, List.append_assoc]; rfl, .cons ?_ hrel⟩
        have hraw : DisjRawRel simp dnfOf goals r.goals r.fakes ag { name := ag.name, fluents := ag.fluents, actions := r.acts } := by
          refine ⟨rfl, rfl, ⟨ps, fnews.map CAction.strip, hp, ?_, ?_⟩, ?_⟩
          · simp only [hfn, List.map_append, assignNames_strip, List.map_nil, List.nil_append]
          · intro x hx
            obtain ⟨ca, hca, rfl⟩ := List.mem_map.1 hx
            exact hfake ca hca
          · intro γ hγ
            exact hdone γ hγ
        exact hraw.mono ⟨gx, hgx⟩ ⟨fx, hfx⟩

/-- appending the resets: split actions get them, fake actions do not -/
theorem strip_addResets (fakes : List FluentRef) (c : CAction) :
    (addResets fakes c).strip =
      (c.origin, c.act.params, c.act.pre, if c.origin.isSome then c.act.effs ++ fakes.map resetEffect else c.act.effs) := by
  unfold addResets CAction.strip
  cases h : c.origin <;> simp [h]

end UPVerif.MA
