import UPVerif.Lemmas.SimplifyQSem
import UPVerif.Lemmas.SimplifyQuant
/-!
Helper lemmas for `Props/C11.lean`, part 8: semantic correctness of one round of the `Exists`
elimination (`elim_step_sound`) and of `walk_forall` / `walk_exists` as a whole.  No Mathlib.
-/
namespace UPVerif.Simp
open Expr

theorem den_and_split {ι : Interp} {ρ : VEnv} {pre post : List Expr} {c : Expr} {y : Bool}
    (h : den ι ρ (.app .and (pre ++ c :: post)) = some (.b y)) :
    ∃ yc yr, den ι ρ c = some (.b yc) ∧ den ι ρ (mkAnd (pre ++ post)) = some (.b yr) ∧
      y = (yc && yr) := by
  obtain ⟨xs, hxs, hv⟩ := den_and_some.1 h
  simp only [Val.b.injEq] at hv; subst hv
  obtain ⟨xp, xr, hp, hr, rfl⟩ := denBools_append_inv hxs
  obtain ⟨yc, xq, hc, hq, rfl⟩ := denBools_cons.1 hr
  refine ⟨yc, (xp ++ xq).all id, hc, den_mkAnd (denBools_append hp hq), ?_⟩
  simp only [List.all_append, List.all_cons, id]
  cases yc <;> simp

theorem denOp_eq_iff {ι : Interp} {va vb : Val} {y : Bool}
    (h : denOp ι .eq [va, vb] = some (.b y)) : (y = true ↔ va = vb) := by
  cases va <;> cases vb <;> simp [denOp] at h <;> subst h <;> simp

theorem den_eq_var {ι : Interp} {ρ : VEnv} {x : Var} {value c : Expr} {yc : Bool}
    (hc : c = .app .eq [.leaf (.var x), value] ∨ c = .app .eq [value, .leaf (.var x)])
    (h : den ι ρ c = some (.b yc)) :
    ∃ wx wt, VEnv.get ρ x = some wx ∧ den ι ρ value = some wt ∧ (yc = true ↔ wx = wt) := by
  rcases hc with rfl | rfl
  · obtain ⟨va, vb, ha, hb, hop⟩ := den_app2_some.1 h
    simp only [den, denLeaf] at ha
    exact ⟨va, vb, ha, hb, denOp_eq_iff hop⟩
  · obtain ⟨va, vb, ha, hb, hop⟩ := den_app2_some.1 h
    simp only [den, denLeaf] at hb
    exact ⟨vb, va, hb, ha, by rw [denOp_eq_iff hop]; exact eq_comm⟩

/-- moving the binding of `x` to the front -/
theorem den_front {ι : Interp} {ρ a : VEnv} {x : Var} {w : Val} (e : Expr)
    (hx : VEnv.get (a ++ ρ) x = some w) :
    den ι ((x, w) :: (keep (fun v => v != x) a ++ ρ)) e = den ι (a ++ ρ) e := by
  apply den_congr_env
  intro z _
  rw [VEnv.get_cons]
  by_cases hxz : x = z
  · subst hxz; rw [if_pos rfl, hx]
  · rw [if_neg hxz]
    exact get_keep_append _ a ρ z (by simpa using fun h => hxz h.symm)

theorem den_keep_ne {ι : Interp} {ρ a : VEnv} {x : Var} {t : Expr} (hx : x ∉ freeVars t) :
    den ι (keep (fun v => v != x) a ++ ρ) t = den ι (a ++ ρ) t := by
  apply den_congr_env
  intro z hz
  exact get_keep_append _ a ρ z (by
    have : z ≠ x := fun h => hx (h ▸ hz)
    simpa using this)

theorem compatVar_some {cfg : SimpCfg} {x : Var} {value : Expr} (h : compatVar cfg x value = true) :
    ∃ tx u, x.ty = .user tx ∧ userTypeOf? value = some u ∧ cfg.tenv.isSubtype u tx = true := by
  unfold compatVar at h
  split at h
  · rename_i tx u htx hu; exact ⟨tx, u, htx, hu, h⟩
  · cases h

/-- one round of the repaired `Exists` elimination preserves a defined value -/
theorem elim_step_sound {cfg : SimpCfg} {ι : Interp} {oty : String → Option String}
    (R : Respects cfg ι oty) {ρ : VEnv} (hρ : EnvOK ι ρ) {vars : List Var} {cs : List Expr}
    {x : Var} {value rest : Expr}
    (hwf : WF ι oty (.app .and cs)) (hne : ∀ v, v ∈ vars → (ι.dom v.ty).isEmpty = false)
    (hf : findElim cfg vars [] cs = some (x, value, rest)) {v : Val}
    (h : den ι ρ (.quant .ex vars (.app .and cs)) = some v) :
    den ι ρ (.quant .ex (vars.filter (fun v => v != x))
      (subst [(.leaf (.var x), value)] rest)) = some v := by
  obtain ⟨pre, c, post, hcs, hrest, hcand, hel⟩ := findElim_some hf
  simp only [List.nil_append] at hcs
  obtain ⟨hxv, hcform⟩ := elimCandidate_some hcand
  simp only [eligible, Bool.and_eq_true, Bool.not_eq_eq_eq_not, Bool.not_true,
    List.contains_eq_mem, decide_eq_false_iff_not, List.all_eq_true] at hel
  obtain ⟨⟨hxt, hcompat⟩, hcap⟩ := hel
  obtain ⟨tx, u, htx, hu, hsub⟩ := compatVar_some hcompat
  have hcap' : ∀ y, y ∈ freeVars value → y ∉ boundVars rest := fun y hy => by simpa using hcap y hy
  -- well-formedness of `value`
  have hcwf : WF ι oty c := (allB_app (pl := leafOK ι oty)).1 hwf c (by rw [hcs]; simp)
  have hvwf : WF ι oty value := by
    rcases hcform with rfl | rfl <;> exact (allB_app (pl := leafOK ι oty)).1 hcwf _ (by simp)
  subst hcs hrest
  rw [den_quant] at h ⊢
  refine quantVal_transfer .ex _ _ _ _ ?_ ?_ v h
  · -- T1
    intro a' ha'
    cases hval : den ι (a' ++ ρ) value with
    | none =>
      obtain ⟨a, ha, hk, _⟩ := lift_assignment (ι := ι) (fun v => v != x) (someVal ι) vars
        (fun v hv _ => someVal_mem (hne v hv)) a' ha'
      refine ⟨a, ha, fun y hy => ?_⟩
      obtain ⟨yc, yr, hc, _, _⟩ := den_and_split hy
      obtain ⟨wx, wt, _, hwt, _⟩ := den_eq_var hcform hc
      rw [← hk, den_keep_ne hxt, hwt] at hval
      cases hval
    | some w =>
      have hwdom : w ∈ ι.dom x.ty := by
        rw [htx]
        exact R.domUp u tx hsub w (userType_sound R (envOK_append hρ ha') hvwf hu hval)
      obtain ⟨a, ha, hk, hg⟩ := lift_assignment (ι := ι) (fun v => v != x) (fun _ => w) vars
        (fun v _ hp => by
          have : v = x := by simpa using hp
          subst this; exact hwdom) a' ha'
      have hgx : VEnv.get (a ++ ρ) x = some w := by
        rw [VEnv.get_append, hg x hxv (by simp)]; rfl
      refine ⟨a, ha, fun y hy => ?_⟩
      obtain ⟨yc, yr, hc, hr, rfl⟩ := den_and_split hy
      obtain ⟨wx, wt, hwx, hwt, hiff⟩ := den_eq_var hcform hc
      rw [hgx] at hwx; simp only [Option.some.injEq] at hwx; subst hwx
      rw [← hk, den_keep_ne hxt, hwt] at hval
      simp only [Option.some.injEq] at hval; subst hval
      have hyc : yc = true := hiff.2 rfl
      subst hyc
      simp only [Bool.true_and]
      rw [← hk]
      apply subst_var_sound _ _ wt _ ?_ hcap'
      · rw [den_front _ hgx]; exact hr
      · rw [den_keep_ne hxt]; exact hwt
  · -- T2 (only `true` has to be inherited)
    intro a ha y hy hex
    have hyt := hex rfl; subst hyt
    obtain ⟨yc, yr, hc, hr, hand⟩ := den_and_split hy
    have hyc : yc = true := by cases yc <;> cases yr <;> first | rfl | cases hand
    have hyr : yr = true := by cases yc <;> cases yr <;> first | rfl | cases hand
    subst hyc hyr
    obtain ⟨wx, wt, hwx, hwt, hiff⟩ := den_eq_var hcform hc
    have := hiff.1 rfl; subst this
    refine ⟨keep (fun v => v != x) a, keep_mem_assignments _ ha, ?_⟩
    apply subst_var_sound _ _ wx _ ?_ hcap'
    · rw [den_front _ hwx]; exact hr
    · rw [den_keep_ne hxt]; exact hwt

/-! ### the main induction -/

mutual
theorem allB_true : ∀ e : Expr, allB (fun _ => true) (fun _ => true) e = true
  | .leaf _ => by simp [allB]
  | .app _ args => by simp only [allB]; exact allBList_true args
  | .quant _ vs b => by simp [allB, allB_true b]
theorem allBList_true : ∀ es : List Expr, allBList (fun _ => true) (fun _ => true) es = true
  | [] => by simp [allBList]
  | e :: es => by simp [allBList, allB_true e, allBList_true es]
end

theorem tablesAll_true (cfg : SimpCfg) : cfg.tablesAll (fun _ => true) = true := by
  simp [SimpCfg.tablesAll, allB_true]

theorem leafOK_const (ι : Interp) (oty : String → Option String) :
    (∀ b, leafOK ι oty (.boolC b) = true) ∧ (∀ z, leafOK ι oty (.intC z) = true) ∧
      (∀ r, leafOK ι oty (.realC r) = true) := by
  refine ⟨fun _ => rfl, fun _ => rfl, fun _ => rfl⟩

theorem All₂.denList {ι : Interp} {ρ : VEnv} {Q : Expr → Prop} :
    ∀ {args as : List Expr},
      All₂ (fun a b => Q a → ∀ v, den ι ρ a = some v → den ι ρ b = some v) args as →
      (∀ a, a ∈ args → Q a) → ∀ vs, denList ι ρ args = some vs → denList ι ρ as = some vs
  | _, _, .nil, _, vs, h => h
  | _, _, .cons hab hrest, hq, vs, h => by
    obtain ⟨v, vs', hv, hvs', rfl⟩ := denList_cons_some.1 h
    exact denList_cons_some.2 ⟨v, vs', hab (hq _ (by simp)) v hv,
      All₂.denList hrest (fun a ha => hq a (List.mem_cons_of_mem _ ha)) vs' hvs', rfl⟩

theorem All₂.imp {α β : Type} {R S : α → β → Prop} (h : ∀ a b, R a b → S a b) :
    ∀ {as : List α} {bs : List β}, All₂ R as bs → All₂ S as bs
  | _, _, .nil => .nil
  | _, _, .cons hab hrest => .cons (h _ _ hab) (All₂.imp h hrest)

/-- what the main induction carries: well-formedness and inhabited quantifiers are preserved, and
    every defined value is preserved under every typed environment -/
def SoundRel (ι : Interp) (oty : String → Option String) (e e' : Expr) : Prop :=
  WF ι oty e → QuantInhabited ι e →
    WF ι oty e' ∧ QuantInhabited ι e' ∧
      ∀ ρ v, EnvOK ι ρ → den ι ρ e = some v → den ι ρ e' = some v

theorem simpF_sound {cfg : SimpCfg} {ι : Interp} {oty : String → Option String}
    (R : Respects cfg ι oty) (hct : cfg.constTables = true) :
    ∀ n e e', simpF cfg n e = .ok e' → SoundRel ι oty e e' := by
  have hcl := leafOK_const ι oty
  have hct1 : (∀ b : Bool, (fun _ : Leaf => true) (.boolC b) = true) ∧
      (∀ z : Int, (fun _ : Leaf => true) (.intC z) = true) ∧
      (∀ r : Rat, (fun _ : Leaf => true) (.realC r) = true) := ⟨fun _ => rfl, fun _ => rfl, fun _ => rfl⟩
  have htab := R.tables
  have htab1 := tablesAll_true cfg
  have hcompW := comp_allB (pl := leafOK ι oty) (pv := fun _ => true) hcl
  have hcompQ := comp_allB (pl := fun _ => true) (pv := fun x => !(ι.dom x.ty).isEmpty) hct1
  have htabW := tablesOK_allB (pv := fun _ => true) hcl hct htab
  have htabQ := tablesOK_allB (pv := fun x => !(ι.dom x.ty).isEmpty) hct1 hct htab1
  apply simpF_induct cfg (SoundRel ι oty)
  · intro l hwf hqi; exact ⟨hwf, hqi, fun _ _ _ h => h⟩
  · -- operator nodes
    intro op args as e' hall hw hwf hqi
    have hboth : ∀ a, a ∈ args → WF ι oty a ∧ QuantInhabited ι a :=
      fun a ha => ⟨(hcompW.app _ _).1 hwf a ha, (hcompQ.app _ _).1 hqi a ha⟩
    have hwfas : ∀ b, b ∈ as → WF ι oty b :=
      All₂.forall_right (fun a b hab ha => (hab ha.1 ha.2).1) hall hboth
    have hqias : ∀ b, b ∈ as → QuantInhabited ι b :=
      All₂.forall_right (fun a b hab ha => (hab ha.1 ha.2).2.1) hall hboth
    refine ⟨walkApp_comp hcompW htabW hwfas hw, walkApp_comp hcompQ htabQ hqias hw, ?_⟩
    intro ρ v hρ h
    obtain ⟨vs, hvs, hop⟩ := den_app_some.1 h
    have hvs' := All₂.denList (ι := ι) (ρ := ρ) (Q := fun a => WF ι oty a ∧ QuantInhabited ι a)
      (All₂.imp (fun a b hab ha v hv => (hab ha.1 ha.2).2.2 ρ v hρ hv) hall) hboth vs hvs
    exact walkApp_sound R hρ hwfas hw (den_app_some.2 ⟨vs, hvs', hop⟩)
  · -- Forall
    intro vs b b' hb hwf hqi
    have hwfb : WF ι oty b := by simpa [WF, allB] using hwf
    have hqi' := hqi
    simp only [QuantInhabited, allB, Bool.and_eq_true, List.all_eq_true] at hqi'
    obtain ⟨hwb', hqb', hsem⟩ := hb hwfb hqi'.2
    refine ⟨allB_step_all (fun _ => hwb') hwf, allB_step_all (fun _ => hqb') hqi, ?_⟩
    intro ρ v hρ h
    have h1 : den ι ρ (.quant .all vs b') = some v :=
      den_quant_congr (fun a ha v' hv' => hsem _ v' (envOK_append hρ ha) hv') h
    have h2 := den_quant_filter (fun x hx => by simpa using hqi'.1 x hx) h1
    unfold walkForall
    simp only []
    split
    · rename_i hemp
      rw [List.isEmpty_iff.1 hemp] at h2
      exact den_quant_nil h2
    · exact h2
  · -- Exists
    intro vs b b' e' resimp hb hres hw hwf hqi
    have hwfb : WF ι oty b := by simpa [WF, allB] using hwf
    have hqi' := hqi
    simp only [QuantInhabited, allB, Bool.and_eq_true, List.all_eq_true] at hqi'
    obtain ⟨hwb', hqb', hsem⟩ := hb hwfb hqi'.2
    obtain ⟨vars', b'', hloop, rfl⟩ := walkExists_ok hw
    have hinv := elimLoop_inv (cfg := cfg) (resimp := resimp)
      (fun vars e => WF ι oty e ∧ QuantInhabited ι e ∧
        (∀ x, x ∈ vars → (ι.dom x.ty).isEmpty = false) ∧
        ∀ ρ v, EnvOK ι ρ →
          den ι ρ (.quant .ex (vs.filter (fun v => (freeVars b').contains v)) b') = some v →
          den ι ρ (.quant .ex vars e) = some v) ?_ _ _ _ _ _
      ⟨hwb', hqb', fun x hx => by simpa using hqi'.1 x (List.mem_filter.1 hx).1,
        fun _ _ _ h => h⟩ hloop
    · obtain ⟨hw1, hq1, hne1, hsem1⟩ := hinv
      refine ⟨?_, ?_, ?_⟩
      · split
        · exact hw1
        · simpa [WF, allB] using hw1
      · split
        · exact hq1
        · simp only [QuantInhabited, allB, Bool.and_eq_true, List.all_eq_true]
          exact ⟨fun x hx => by simpa using hne1 x hx, hq1⟩
      · intro ρ v hρ h
        have h1 : den ι ρ (.quant .ex vs b') = some v :=
          den_quant_congr (fun a ha v' hv' => hsem _ v' (envOK_append hρ ha) hv') h
        have h2 := den_quant_filter (fun x hx => by simpa using hqi'.1 x hx) h1
        have h3 := hsem1 ρ v hρ h2
        split
        · rename_i hemp
          rw [List.isEmpty_iff.1 hemp] at h3
          exact den_quant_nil h3
        · exact h3
    · intro vars cs x value rest e1 hI hf hr
      obtain ⟨hwI, hqI, hneI, hsemI⟩ := hI
      have hws := allB_elim_subst (pv := fun _ => true) hcl hwI hf
      have hqs := allB_elim_subst (pv := fun x => !(ι.dom x.ty).isEmpty) hct1 hqI hf
      obtain ⟨hw1, hq1, hsem1⟩ := hres _ _ hr hws hqs
      have hne' : ∀ y, y ∈ (vars.filter (fun v => v != x)) → (ι.dom y.ty).isEmpty = false :=
        fun y hy => hneI y (List.mem_filter.1 hy).1
      refine ⟨hw1, hq1, fun y hy => hne' y (List.mem_filter.1 hy).1, ?_⟩
      intro ρ v hρ h0
      have h1 := elim_step_sound R hρ hwI hneI hf (hsemI ρ v hρ h0)
      have h2 : den ι ρ (.quant .ex (vars.filter (fun v => v != x)) e1) = some v :=
        den_quant_congr (fun a ha v' hv' => hsem1 _ v' (envOK_append hρ ha) hv') h1
      exact den_quant_filter hne' h2

end UPVerif.Simp
