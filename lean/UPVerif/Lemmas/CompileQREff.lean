import UPVerif.Core.Compile.QR
import UPVerif.Lemmas.CompileQRFree
import UPVerif.Lemmas.CompileBTRStep
import UPVerif.Lemmas.CompileSIR
/-!
QuantifiersRemover, part 4: expressions and effects that are STRICTLY DEFINED in a state (they have a value in the
reference denotation, i.e. no evaluation error is hidden by the early exit of a quantifier loop) evaluate alike
before and after the compilation: preconditions, goals, and the fired effects of an action.
-/
namespace UPVerif.Compile
open UPVerif UPVerif.Expr UPVerif.Sim UPVerif.Spec UPVerif.Simp

/-- what the theorems need from the simplifier applied to the (quantifier-free) expanded effect conditions: the
    form property C11 proves of the real simplifier — every defined value is preserved — and no quantifier appears -/
def SimpDen (simp : Expr → Expr) : Prop :=
  (∀ (ι : Interp) (e : Expr) (v : Val), qfree e = true → den ι [] e = some v → den ι [] (simp e) = some v) ∧
  (∀ e, qfree e = true → qfree (simp e) = true)

theorem SimpDen_id : SimpDen id := ⟨fun _ _ _ _ h => h, fun _ h => h⟩

/-- the expression has a value in the reference denotation of the state -/
def DefAt (W : World) (g : St) (e : Expr) : Prop := ∃ v, den (ctxInterp (ctxOf W g)) [] e = some v

theorem ctx_dom (W : World) (g : St) :
    ∀ t, (ctxInterp (ctxOf W g)).dom t = (tyDomain W.P t).map Val.o := by
  intro t
  cases t <;> rfl

/-- a strictly defined expression and its expansion evaluate to the same value -/
theorem rq_eval {W : World} {g : St} {e : Expr} (hq : qNodup e = true) (hd : DefAt W g e) :
    ∃ v, den (ctxInterp (ctxOf W g)) [] e = some v ∧ eval (ctxOf W g) [] e = .ok v ∧
      den (ctxInterp (ctxOf W g)) [] (removeQuantifiers W.P e) = some v ∧
      eval (ctxOf W g) [] (removeQuantifiers W.P e) = .ok v := by
  obtain ⟨v, hv⟩ := hd
  have h1 := (den_eval (ctxOf W g)).1 e [] v hq hv
  have h2 := (rq_den (ctx_dom W g)).1 e [] v hq hv
  have h3 := (den_eval (ctxOf W g)).1 _ [] v (qfree_qNodup.1 _ ((qfree_rq W.P).1 e)) h2
  exact ⟨v, hv, h1, h2, h3⟩

theorem preOK_rq {W : World} {g : St} : ∀ {l : List Expr}, (∀ p ∈ l, qNodup p = true ∧ DefAt W g p) →
    preOK (ctxOf W g) (l.map (removeQuantifiers W.P)) = preOK (ctxOf W g) l
  | [], _ => rfl
  | p :: ps, h => by
    obtain ⟨hq, hd⟩ := h p (List.mem_cons_self ..)
    obtain ⟨v, _, h1, _, h3⟩ := rq_eval hq hd
    rw [List.map_cons, preOK_cons, preOK_cons, h1, h3, preOK_rq (fun x hx => h x (List.mem_cons_of_mem _ hx))]

/-! ### one effect instance -/

/-- the fired result of an effect whose condition holds -/
def effVal (k : GKey) (isBool : Bool) (kind : EffKind) (rv : Except EvalErr Val) : Except EvalErr (Option Fired) :=
  effResult k isBool kind false (.ok (.b true)) rv

theorem effResult_uncond (k : GKey) (isBool : Bool) (kind : EffKind) (rc rv : Except EvalErr Val) :
    effResult k isBool kind false rc rv = effVal k isBool kind rv := by
  unfold effVal effResult
  simp

theorem effResult_fired (k : GKey) (isBool : Bool) (kind : EffKind) (rv : Except EvalErr Val) :
    effResult k isBool kind true (.ok (.b true)) rv = effVal k isBool kind rv := by
  unfold effVal effResult
  simp

theorem effResult_unfired (k : GKey) (isBool : Bool) (kind : EffKind) (rv : Except EvalErr Val) {v : Val}
    (hv : v ≠ .b true) : effResult k isBool kind true (.ok v) rv = .ok none := by
  unfold effResult
  have : (v == Val.b true) = false := by simpa using hv
  simp [this]

/-- strict definedness of one effect instance in a state: the condition has a value; the value expression has one
    when the effect fires; the target of an instance the compiler DROPS (condition simplified to FALSE) evaluates
    (the simulator evaluates the target's arguments before the condition, `_evaluate_effect` l.383) -/
structure DefEff (simp : Expr → Expr) (W : World) (g : St) (x : Effect) : Prop where
  cond : x.isConditional = true → DefAt W g x.cond
  value : (x.isConditional = false ∨ den (ctxInterp (ctxOf W g)) [] x.cond = some (.b true)) → DefAt W g x.value
  target : x.isConditional = true → (simp (removeQuantifiers W.P x.cond)).isFalse = true →
    ∃ f args vs, x.fluent = .app (.fluent f) args ∧ evalArgs (ctxOf W g) args = .ok vs

/-- what QuantifiersRemover makes of one effect instance (`none` = dropped) -/
def qrEff (simp : Expr → Expr) (P : Problem) (x : Effect) : Option Effect :=
  let c := if x.isConditional then simp (removeQuantifiers P x.cond) else x.cond
  if c.isFalse then none else some { x with cond := c, value := removeQuantifiers P x.value }

theorem qrEffects_eq (simp : Expr → Expr) (P : Problem) (effs : List Effect) :
    qrEffects simp P effs = (expandEffs P effs).filterMap (qrEff simp P) := rfl

theorem den_isFalse {ι : Interp} {e : Expr} (h : e.isFalse = true) : den ι [] e = some (.b false) := by
  cases e with
  | leaf l =>
    cases l with
    | boolC b => cases b with
      | false => rfl
      | true => simp [Expr.isFalse] at h
    | _ => simp [Expr.isFalse] at h
  | app op as => simp [Expr.isFalse] at h
  | quant q vs b => simp [Expr.isFalse] at h

theorem den_isTrue {ι : Interp} {e : Expr} (h : e.isTrue = true) : den ι [] e = some (.b true) := by
  cases e with
  | leaf l =>
    cases l with
    | boolC b => cases b with
      | true => rfl
      | false => simp [Expr.isTrue] at h
    | _ => simp [Expr.isTrue] at h
  | app op as => simp [Expr.isTrue] at h
  | quant q vs b => simp [Expr.isTrue] at h

section eff
variable {simp : Expr → Expr} {W : World} {g : St}

/-- the simplified expanded condition of a strictly defined conditional effect evaluates like the condition -/
theorem qr_cond_eval (hs : SimpDen simp) {x : Effect} (hq : qNodup x.cond = true) (hd : DefAt W g x.cond) :
    ∃ v, den (ctxInterp (ctxOf W g)) [] x.cond = some v ∧ eval (ctxOf W g) [] x.cond = .ok v ∧
      den (ctxInterp (ctxOf W g)) [] (simp (removeQuantifiers W.P x.cond)) = some v ∧
      eval (ctxOf W g) [] (simp (removeQuantifiers W.P x.cond)) = .ok v := by
  obtain ⟨v, h0, h1, h2, _⟩ := rq_eval hq hd
  have hqf := (qfree_rq W.P).1 x.cond
  have h3 := hs.1 _ _ v hqf h2
  have h4 := (den_eval (ctxOf W g)).1 _ [] v (qfree_qNodup.1 _ (hs.2 _ hqf)) h3
  exact ⟨v, h0, h1, h3, h4⟩

/-- a dropped instance does not fire in the original either -/
theorem qrEff_dropped (hs : SimpDen simp) {x : Effect} (hq : qNodup x.cond = true) (hd : DefEff simp W g x)
    (h : qrEff simp W.P x = none) : evalEff (ctxOf W g) x = .ok none := by
  unfold qrEff at h
  dsimp only at h
  by_cases hc : x.isConditional = true
  · rw [if_pos hc] at h
    split at h
    · rename_i hf
      obtain ⟨v, _, h1, h3, _⟩ := qr_cond_eval hs hq (hd.cond hc)
      rw [den_isFalse hf] at h3
      cases h3
      obtain ⟨f, args, vs, hfl, hargs⟩ := hd.target hc hf
      obtain ⟨fl, va, cnd, k, fa⟩ := x
      simp only at hfl h1 hc
      subst hfl
      rw [evalEff_fluent, hargs]
      dsimp only
      have hic : (!cnd.isTrue) = true := hc
      rw [hic, h1]
      exact effResult_unfired _ _ _ _ (by simp)
    · cases h
  · -- an unconditional effect has the condition TRUE, which is not FALSE
    have hc' : x.isConditional = false := by simpa using hc
    rw [hc'] at h
    simp only [Bool.false_eq_true, if_false] at h
    split at h
    · rename_i hf
      unfold Effect.isConditional at hc'
      have : x.cond.isTrue = true := by simpa using hc'
      cases hx : x.cond with
      | leaf l =>
        rw [hx] at hf this
        cases l <;> simp [Expr.isTrue, Expr.isFalse] at hf this
        rename_i b
        cases b <;> simp_all
      | app op as => rw [hx] at this; simp [Expr.isTrue] at this
      | quant q vs b => rw [hx] at this; simp [Expr.isTrue] at this
    · cases h

/-- a kept instance evaluates like the original instance -/
theorem qrEff_kept (hs : SimpDen simp) {x x' : Effect} (hq : qNodup x.cond = true ∧ qNodup x.value = true)
    (hd : DefEff simp W g x) (h : qrEff simp W.P x = some x') :
    evalEff (ctxOf W g) x' = evalEff (ctxOf W g) x := by
  unfold qrEff at h
  dsimp only at h
  by_cases hf : (if x.isConditional = true then simp (removeQuantifiers W.P x.cond) else x.cond).isFalse = true
  · rw [if_pos hf] at h; cases h
  rw [if_neg hf] at h
  simp only [Option.some.injEq] at h
  subst h
  obtain ⟨fl, va, cnd, k, fa⟩ := x
  simp only at hq
  cases fl with
  | leaf l => rfl
  | quant q vs b => rfl
  | app op args =>
    cases op <;> try rfl
    rename_i f
    simp only
    rw [evalEff_fluent, evalEff_fluent]
    cases evalArgs (ctxOf W g) args with
    | error e => rfl
    | ok vs =>
      dsimp only
      -- the value expression, when it is evaluated
      have hval : (Effect.isConditional ⟨.app (.fluent f) args, va, cnd, k, fa⟩ = false ∨
          den (ctxInterp (ctxOf W g)) [] cnd = some (.b true)) →
          eval (ctxOf W g) [] (removeQuantifiers W.P va) = eval (ctxOf W g) [] va := by
        intro hfire
        obtain ⟨w, _, h1, _, h3⟩ := rq_eval hq.2 (hd.value hfire)
        rw [h1, h3]
      by_cases hc : Effect.isConditional ⟨.app (.fluent f) args, va, cnd, k, fa⟩ = true
      · have hic : (!cnd.isTrue) = true := hc
        rw [if_pos hc]
        obtain ⟨v, h0, h1, h3, h4⟩ := qr_cond_eval hs (x := ⟨.app (.fluent f) args, va, cnd, k, fa⟩) hq.1 (hd.cond hc)
        simp only at h0 h1 h3 h4
        rw [hic, h1]
        by_cases hv : v = .b true
        · subst hv
          rw [effResult_fired, hval (Or.inr h0)]
          -- the compiled effect fires too: its condition is TRUE (and may have become unconditional)
          by_cases ht : (simp (removeQuantifiers W.P cnd)).isTrue = true
          · simp only [ht, Bool.not_true]
            rw [effResult_uncond]
          · have ht' : (simp (removeQuantifiers W.P cnd)).isTrue = false := by simpa using ht
            simp only [ht', Bool.not_false]
            rw [h4, effResult_fired]
        · rw [effResult_unfired _ _ _ _ hv]
          have ht' : (simp (removeQuantifiers W.P cnd)).isTrue = false := by
            cases ht : (simp (removeQuantifiers W.P cnd)).isTrue with
            | false => rfl
            | true =>
              rw [den_isTrue ht] at h3
              cases h3
              exact absurd rfl hv
          simp only [ht', Bool.not_false]
          rw [h4, effResult_unfired _ _ _ _ hv]
      · have hc' : Effect.isConditional ⟨.app (.fluent f) args, va, cnd, k, fa⟩ = false := by simpa using hc
        have hic : (!cnd.isTrue) = false := hc'
        rw [hc']
        simp only [Bool.false_eq_true, if_false]
        rw [hic, effResult_uncond, effResult_uncond, hval (Or.inl hc')]

/-- the fired effects of the compiled effect list are those of the expanded original list -/
theorem fired_qr (hs : SimpDen simp) : ∀ (X : List Effect),
    (∀ x ∈ X, (qNodup x.cond = true ∧ qNodup x.value = true) ∧ DefEff simp W g x) →
    fired (ctxOf W g) (X.filterMap (qrEff simp W.P)) = fired (ctxOf W g) X
  | [], _ => rfl
  | x :: xs, h => by
    obtain ⟨hq, hd⟩ := h x (List.mem_cons_self ..)
    have ih := fired_qr hs xs (fun y hy => h y (List.mem_cons_of_mem _ hy))
    have e2 : fired (ctxOf W g) (x :: xs) = (match evalEff (ctxOf W g) x, fired (ctxOf W g) xs with
      | .ok none, some Fs => some Fs
      | .ok (some f), some Fs => some (f :: Fs)
      | _, _ => none) := rfl
    rw [List.filterMap_cons]
    cases hx : qrEff simp W.P x with
    | none =>
      dsimp only
      rw [ih, e2, qrEff_dropped hs hq.1 hd hx]
      cases fired (ctxOf W g) xs <;> rfl
    | some x' =>
      dsimp only
      have e1 : fired (ctxOf W g) (x' :: xs.filterMap (qrEff simp W.P)) =
          (match evalEff (ctxOf W g) x', fired (ctxOf W g) (xs.filterMap (qrEff simp W.P)) with
        | .ok none, some Fs => some Fs
        | .ok (some f), some Fs => some (f :: Fs)
        | _, _ => none) := rfl
      rw [e1, e2, ih, qrEff_kept hs hq hd hx]

end eff

end UPVerif.Compile
