import UPVerif.Lemmas.FromPddlOps
import UPVerif.Lemmas.FromPddlFrag
/-!
Helper lemmas for C21, converter side: `Plus`, `Times`, `Divide`, function `EqualTo` and the unary minus of the package,
under the side condition that no operand is dropped (D-C21a).
-/
namespace UPVerif.FromPddl
open UPVerif UPVerif.Expr UPVerif.Pddl

/-! ### shapes -/

theorem flat_notOp (k : OpK) (φ : Form) (h : notOp k φ = true) : flat k φ = [φ] := by
  cases φ with
  | op k' xs =>
    rw [flat_op, if_neg]
    intro e; subst e; simp [notOp] at h
  | num _ => exact flat_nonop k _ (by intro _ _ h; cases h)
  | not _ => exact flat_nonop k _ (by intro _ _ h; cases h)
  | pred _ _ => exact flat_nonop k _ (by intro _ _ h; cases h)
  | fn _ _ => exact flat_nonop k _ (by intro _ _ h; cases h)
  | eqT _ _ => exact flat_nonop k _ (by intro _ _ h; cases h)
  | quant _ _ _ => exact flat_nonop k _ (by intro _ _ h; cases h)
  | «when» _ _ => exact flat_nonop k _ (by intro _ _ h; cases h)
  | forallE _ _ => exact flat_nonop k _ (by intro _ _ h; cases h)

theorem flatList_notOp (k : OpK) : ∀ χs : List Form, (∀ χ ∈ χs, notOp k χ = true) → flatList k χs = χs
  | [], _ => by rw [flatList]
  | x :: xs, h => by
    rw [flatList, flat_notOp k x (h x (List.mem_cons_self ..)),
      flatList_notOp k xs (fun χ hχ => h χ (List.mem_cons_of_mem _ hχ))]
    rfl

theorem wfK_of_notOp (k : OpK) (φ : Form) (h : notOp k φ = true) : wfK k φ = true := by
  cases φ with
  | op k' xs => simp only [notOp] at h; simp [wfK, h]
  | num _ => rfl
  | not _ => rfl
  | pred _ _ => rfl
  | fn _ _ => rfl
  | eqT _ _ => rfl
  | quant _ _ _ => rfl
  | «when» _ _ => rfl
  | forallE _ _ => rfl

theorem wfK_op (k : OpK) (χs : List Form) (h : wfK k (.op k χs) = true) :
    2 ≤ χs.length ∧ ∀ χ ∈ χs, notOp k χ = true := by
  simpa [wfK] using h

/-- every spliced operand is not of class `k` -/
theorem notOp_flatList (k : OpK) : ∀ l : List Form, (∀ φ ∈ l, wfK k φ = true) → ∀ ψ ∈ flatList k l, notOp k ψ = true
  | [], _, ψ, hm => by rw [flatList] at hm; cases hm
  | x :: xs, hw, ψ, hm => by
    rw [flatList, List.mem_append] at hm
    rcases hm with hm | hm
    · by_cases hx : notOp k x = true
      · rw [flat_notOp k x hx] at hm
        rw [List.mem_singleton.1 hm]; exact hx
      · cases x with
        | op k' χs =>
          have hk : k' = k := by
            simp only [notOp, bne_iff_ne, ne_eq, Decidable.not_not] at hx; exact hx
          subst hk
          have := wfK_op k' χs (hw _ (List.mem_cons_self ..))
          rw [flat_op, if_pos rfl, flatList_notOp k' χs this.2] at hm
          exact this.2 ψ hm
        | num _ => exact absurd rfl hx
        | not _ => exact absurd rfl hx
        | pred _ _ => exact absurd rfl hx
        | fn _ _ => exact absurd rfl hx
        | eqT _ _ => exact absurd rfl hx
        | quant _ _ _ => exact absurd rfl hx
        | «when» _ _ => exact absurd rfl hx
        | forallE _ _ => exact absurd rfl hx
    · exact notOp_flatList k xs (fun φ hφ => hw φ (List.mem_cons_of_mem _ hφ)) ψ hm

theorem flatList_length_ge (k : OpK) (l : List Form) (hw : ∀ φ ∈ l, wfK k φ = true) : l.length ≤ (flatList k l).length :=
  flatList_length_le k (fun φ => wfK k φ = true)
    (fun χs h => by
      have := wfK_op k χs h
      refine ⟨fun e => ?_, fun χ hχ => wfK_of_notOp k χ (this.2 χ hχ)⟩
      rw [e] at this; simp at this) l hw

/-- `cls(*operands)` for `Plus`, `Times`, `Divide`, function `EqualTo` when nothing is dropped -/
theorem mkOp_nodrop (k : OpK) (hm : k.isMeta = true) (hi : k.idem = false) (φs : List Form) (h2 : 2 ≤ φs.length)
    (hnd : (flatList k φs).Nodup) : mkOp k φs = .op k (flatList k φs) := by
  unfold mkOp simplifyOperands
  rw [if_pos hm, hi]
  simp only [Bool.false_eq_true, if_false]
  rw [if_neg (by omega), dedup_of_nodup _ hnd]
  generalize flatList k φs = o
  match o with
  | [] => rfl
  | [x] => rfl
  | _ :: _ :: _ => rfl

section
variable (E : CEnv) (ps : List (String × Ty)) (qv : List Var)

/-- the facts about an arithmetic class of the package and the manager's operator it is converted to -/
structure ArithK (k : OpK) (eop : Op) (opN : Option Rat → Option Rat → Option Rat) (u : Option Rat) : Prop where
  isMeta : k.isMeta = true
  nidem : k.idem = false
  nminus : k ≠ .minus
  conv_ge : ∀ as : List Expr, 2 ≤ as.length → convOp k as = some (.app eop as)
  conv_lt : ∀ as : List Expr, as.length < 2 → convOp k as = none
  mon : CMon opN u
  obs : ∀ (c : EvalCtx) (ρ : VEnv) (xs : List Expr),
    obs (eval c ρ (.app eop xs)) = (foldO opN u (xs.map (nval c ρ))).map Val.n

theorem arithK_plus : ArithK .plus .plus add2 (some 0) where
  isMeta := rfl
  nidem := rfl
  nminus := by decide
  conv_ge := by
    intro as h
    match as, h with
    | x :: y :: r, _ => simp [convOp, mkPlus]
  conv_lt := by intro as h; simp [convOp, h]
  mon := cmon_add2
  obs := obs_plus

theorem arithK_times : ArithK .times .times mul2 (some 1) where
  isMeta := rfl
  nidem := rfl
  nminus := by decide
  conv_ge := by
    intro as h
    match as, h with
    | x :: y :: r, _ => simp [convOp, mkTimes]
  conv_lt := by intro as h; simp [convOp, h]
  mon := cmon_mul2
  obs := obs_times

variable {k : OpK} {eop : Op} {opN : Option Rat → Option Rat → Option Rat} {u : Option Rat}

theorem Dv_arith_iff (A : ArithK k eop opN u) (χs : List Form) :
    Dv E ps qv (.op k χs) ↔ (∀ χ ∈ χs, Dv E ps qv χ) ∧ 2 ≤ χs.length := by
  constructor
  · intro h
    have hargs := Dv_op_args E ps qv k χs h
    refine ⟨hargs, ?_⟩
    unfold Dv at h
    rw [conv_op_of E ps qv k A.nminus, convExprs_of_Dv E ps qv χs hargs] at h
    simp only [Option.bind_some] at h
    by_cases hl : 2 ≤ χs.length
    · exact hl
    · rw [A.conv_lt _ (by simpa using hl)] at h; cases h
  · rintro ⟨h1, h2⟩
    unfold Dv
    rw [conv_op_of E ps qv k A.nminus, convExprs_of_Dv E ps qv χs h1]
    simp only [Option.bind_some]
    rw [A.conv_ge _ (by simpa using h2)]
    rfl

theorem cv_arith (A : ArithK k eop opN u) (χs : List Form) (h : Dv E ps qv (.op k χs)) :
    cv E ps qv (.op k χs) = .app eop (χs.map (cv E ps qv)) := by
  have h' := (Dv_arith_iff E ps qv A χs).1 h
  apply cv_eq
  rw [conv_op_of E ps qv k A.nminus, convExprs_of_Dv E ps qv χs h'.1]
  simp only [Option.bind_some]
  exact A.conv_ge _ (by simpa using h'.2)

/-- **`Plus` / `Times` of the package** (nothing dropped): defined iff the operands are, and equivalent to the manager's
    operator on the converted operands -/
theorem arith_mkOp (A : ArithK k eop opN u) (φs : List Form) (h2 : 2 ≤ φs.length) (hnd : (flatList k φs).Nodup)
    (hwf : ∀ φ ∈ φs, wfK k φ = true) :
    (Dv E ps qv (mkOp k φs) ↔ ∀ φ ∈ φs, Dv E ps qv φ) ∧
    ((∀ φ ∈ φs, Dv E ps qv φ) → FRel (.app eop (φs.map (cv E ps qv))) (cv E ps qv (mkOp k φs))) := by
  rw [mkOp_nodrop k A.isMeta A.nidem φs h2 hnd]
  have hlen : 2 ≤ (flatList k φs).length := Nat.le_trans h2 (flatList_length_ge k φs hwf)
  have hdown : ∀ χs, Dv E ps qv (.op k χs) → ∀ χ ∈ χs, Dv E ps qv χ := fun χs h => Dv_op_args E ps qv k χs h
  have hiff : Dv E ps qv (.op k (flatList k φs)) ↔ ∀ φ ∈ φs, Dv E ps qv φ := by
    constructor
    · intro h
      have h1 := ((Dv_arith_iff E ps qv A _).1 h).1
      exact good_of_flatList k (Dv E ps qv) (fun φ => wfK k φ = true)
        (fun χs hw χ hχ => wfK_of_notOp k χ ((wfK_op k χs hw).2 χ hχ))
        (fun χs hw hχ => (Dv_arith_iff E ps qv A χs).2 ⟨hχ, (wfK_op k χs hw).1⟩) φs hwf h1
    · intro h
      exact (Dv_arith_iff E ps qv A _).2 ⟨good_flatList k (Dv E ps qv) hdown φs h, hlen⟩
  refine ⟨hiff, fun hD => ?_⟩
  have hDf := hiff.2 hD
  rw [cv_arith E ps qv A _ hDf]
  constructor
  · -- free variables
    intro v
    simp only [freeVars]
    have key := foldO_flatList k (fV E ps qv v) (Dv E ps qv) cmon_bor
      (fun χs hg => ⟨by
        apply Bool.eq_iff_iff.2
        rw [foldO_bor_eq_true]
        unfold fV
        rw [cv_arith E ps qv A χs hg, decide_eq_true_iff, freeVars, mem_freeVarsList]
        simp only [List.mem_map, decide_eq_true_iff]
        exact exists_map_iff _ _ _, hdown χs hg⟩) φs hD
    have e1 := foldO_bor_eq_true (fV E ps qv v) (flatList k φs)
    have e2 := foldO_bor_eq_true (fV E ps qv v) φs
    rw [key] at e1
    rw [mem_freeVarsList, mem_freeVarsList]
    simp only [List.mem_map]
    rw [exists_map_iff, exists_map_iff]
    unfold fV at e1 e2
    simp only [decide_eq_true_iff] at e1 e2
    exact e2.symm.trans e1
  · -- value
    intro σs c ρ w
    rw [instAll_app, instAll_app, A.obs, A.obs]
    have key := foldO_flatList k (fun φ => nval c ρ (instAll σs (cv E ps qv φ))) (Dv E ps qv) A.mon
      (fun χs hg => ⟨by
        show nval c ρ (instAll σs (cv E ps qv (.op k χs))) = _
        rw [cv_arith E ps qv A χs hg, instAll_app, nval_of_obs (A.obs c ρ _), List.map_map, List.map_map]
        rfl, hdown χs hg⟩) φs hD
    have e : ∀ l : List Form, List.map (nval c ρ) (List.map (instAll σs) (List.map (cv E ps qv) l)) =
        List.map (fun φ => nval c ρ (instAll σs (cv E ps qv φ))) l := fun l => by simp [List.map_map]
    rw [e, e, key]

/-! ### `Divide`, function `EqualTo`: exactly two operands survive -/

theorem flat_length_pos' (k : OpK) (φ : Form) (h : wfK k φ = true) : 1 ≤ (flat k φ).length := by
  have := flatList_length_ge k [φ] (fun ψ hψ => by rw [List.mem_singleton.1 hψ]; exact h)
  simpa [flatList] using this

/-- a binary node of a class that merges its operands, when the converter accepts the result -/
theorem binary_mkOp (k : OpK) (hm : k.isMeta = true) (hi : k.idem = false) (a b : Form)
    (hnd : (flatList k [a, b]).Nodup) (hwa : wfK k a = true) (hwb : wfK k b = true)
    (hlen : (flatList k [a, b]).length = 2) : mkOp k [a, b] = .op k [a, b] := by
  rw [mkOp_nodrop k hm hi [a, b] (by simp) hnd]
  have ha := flat_length_pos' k a hwa
  have hb := flat_length_pos' k b hwb
  have hl : (flat k a).length + (flat k b).length = 2 := by
    simpa [flatList] using hlen
  have key : ∀ φ : Form, wfK k φ = true → (flat k φ).length = 1 → flat k φ = [φ] := by
    intro φ hw h1
    by_cases hn : notOp k φ = true
    · exact flat_notOp k φ hn
    · cases φ with
      | op k' χs =>
        have hk : k' = k := by
          simp only [notOp, bne_iff_ne, ne_eq, Decidable.not_not] at hn; exact hn
        subst hk
        have := wfK_op k' χs hw
        rw [flat_op, if_pos rfl, flatList_notOp k' χs this.2] at h1
        omega
      | num _ => exact absurd rfl hn
      | not _ => exact absurd rfl hn
      | pred _ _ => exact absurd rfl hn
      | fn _ _ => exact absurd rfl hn
      | eqT _ _ => exact absurd rfl hn
      | quant _ _ _ => exact absurd rfl hn
      | «when» _ _ => exact absurd rfl hn
      | forallE _ _ => exact absurd rfl hn
  rw [flatList, flatList, flatList, key a hwa (by omega), key b hwb (by omega)]
  rfl

/-! ### unary minus -/

theorem intCast_neg_one_mul (z : Int) : ((-1 : Int) : Rat) * (z : Rat) = ((-z : Int) : Rat) := by
  rw [Rat.intCast_neg, Rat.intCast_neg]; simp [Rat.neg_mul, Rat.one_mul]

theorem nval_int (c : EvalCtx) (ρ : VEnv) (z : Int) : nval c ρ (Expr.int z) = some (z : Rat) := rfl
theorem nval_real (c : EvalCtx) (ρ : VEnv) (r : Rat) : nval c ρ (Expr.real r) = some r := rfl

theorem instAll_int (σs : List Subst) (z : Int) : instAll σs (Expr.int z) = Expr.int z :=
  instAll_leaf_const _ (by intro _ _ h; cases h) (by intro _ h; cases h) σs
theorem instAll_real (σs : List Subst) (r : Rat) : instAll σs (Expr.real r) = Expr.real r :=
  instAll_leaf_const _ (by intro _ _ h; cases h) (by intro _ h; cases h) σs

theorem nval_of_eqW {e a : Expr} (h : EqW e a) (σs : List Subst) (c : EvalCtx) (ρ : VEnv) (w : WTCtx c) :
    nval c ρ (instAll σs e) = nval c ρ (instAll σs a) := by
  unfold nval
  rw [nvalR_obs, nvalR_obs, h σs c ρ w]

/-- `(- e)`: the first reader builds `-1 * e`, the converter negates a constant and multiplies anything else -/
theorem fRel_negate {e a : Expr} (h : FRel e a) : FRel (mkTimes [Expr.int (-1), e]) (negateConv a) := by
  have hcong : FRel (mkTimes [Expr.int (-1), e]) (mkTimes [Expr.int (-1), a]) :=
    FRel.app .times (show All2 FRel [Expr.int (-1), e] [Expr.int (-1), a] from ⟨FRel.refl _, h, trivial⟩)
  have hval : ∀ (q : Rat) (x : Expr), (∀ σs c ρ, obs (eval c ρ (instAll σs x)) = some (.n (-q))) → freeVars x = [] →
      a = Expr.real q ∨ (∃ z : Int, a = Expr.int z ∧ q = (z : Rat)) → FRel (mkTimes [Expr.int (-1), e]) x := by
    intro q x hx hfx ha
    have hna : ∀ σs c ρ, nval c ρ (instAll σs a) = some q := by
      intro σs c ρ
      rcases ha with rfl | ⟨z, rfl, rfl⟩
      · rw [instAll_real]; rfl
      · rw [instAll_int]; rfl
    have hfa : freeVars a = [] := by
      rcases ha with rfl | ⟨z, rfl, rfl⟩ <;> rfl
    constructor
    · intro v
      have := h.fv v
      rw [hfa] at this
      simp only [mkTimes, freeVars, freeVarsList, hfx, List.append_nil, Expr.int]
      simp only [List.not_mem_nil, iff_false] at this
      simp [this]
    · intro σs c ρ w
      rw [hx σs c ρ, show mkTimes [Expr.int (-1), e] = .app .times [Expr.int (-1), e] from rfl, instAll_app, obs_times]
      simp only [List.map_cons, List.map_nil, foldO_cons, foldO_nil]
      rw [instAll_int, nval_int, nval_of_eqW h.eq σs c ρ w, hna σs c ρ]
      simp only [mul2, Option.map_some, Option.some.injEq, Val.n.injEq]
      rw [Rat.mul_one, Rat.intCast_neg]
      simp [Rat.neg_mul, Rat.one_mul]
  cases a with
  | leaf l =>
    cases l with
    | intC z =>
      refine hval (z : Rat) (Expr.int (-z)) (fun σs c ρ => ?_) rfl (Or.inr ⟨z, rfl, rfl⟩)
      rw [instAll_int]
      show some (Val.n ((-z : Int) : Rat)) = _
      rw [Rat.intCast_neg]
    | realC r =>
      refine hval r (Expr.real (-r)) (fun σs c ρ => ?_) rfl (Or.inl rfl)
      rw [instAll_real]; rfl
    | boolC _ => exact hcong
    | obj _ _ => exact hcong
    | param _ _ => exact hcong
    | var _ => exact hcong
    | timing _ => exact hcong
    | present _ => exact hcong
  | app _ _ => exact hcong
  | quant _ _ _ => exact hcong

end

end UPVerif.FromPddl
