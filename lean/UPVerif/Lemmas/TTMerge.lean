import UPVerif.Core.TT
import UPVerif.Spec.Temporal
import UPVerif.Lemmas.SimFold
import UPVerif.Lemmas.SimApply
/-!
Helper lemmas for `Props/C05.lean` / `Props/C04.lean`: the accumulator loop of `_apply_effects`
(`TT.step` folded over the fired effects of all the events of one instant, each tagged with its
action instance) succeeds exactly when the fired effects are consistent in the sense of
`Spec/Successor.lean` AND no fluent is assigned by two different instances, and then records the
order-free new values.  The proof goes through the simulator's loop (`Sim.step`, `Lemmas/SimFold.lean`):
as long as no fluent is assigned by two instances the two loops move in lockstep.
-/
namespace UPVerif.TT
open UPVerif UPVerif.Sim UPVerif.Spec UPVerif.Spec.Temporal

/-- the simulator's view of the accumulator -/
def toAcc (t : TAcc) : Acc := ⟨t.upd, t.assigned.map (·.1)⟩

/-- `TT.step` folded over evaluated, tagged fired effects -/
def foldT (cur : GKey → Option Val) : List TFired → TAcc → Except Fail TAcc
  | [], acc => .ok acc
  | (tag, f) :: r, acc =>
    match step cur tag acc f with
    | .error x => .error x
    | .ok a => foldT cur r a

/-- two accumulators that read the same -/
def AccEq (a b : Acc) : Prop :=
  (∀ k, a.upd.lookup k = b.upd.lookup k) ∧ (∀ k, a.assigned.contains k = b.assigned.contains k)

theorem AccEq.rfl' (a : Acc) : AccEq a a := ⟨fun _ => rfl, fun _ => rfl⟩

theorem inv_congr {cur : GKey → Option Val} {a b : Acc} {G : List Fired} (h : AccEq a b) (hI : Inv cur b G) :
    Inv cur a G :=
  ⟨hI.sorted, hI.cons, fun k => by rw [h.1 k]; exact hI.vals k, fun k => by rw [h.2 k]; exact hI.asg k⟩

theorem contains_map_fst {β : Type} (l : List (GKey × β)) (k : GKey) :
    (l.map (·.1)).contains k = (l.lookup k).isSome := by
  induction l with
  | nil => simp [List.lookup]
  | cons x xs ih =>
    obtain ⟨k', t⟩ := x
    by_cases h : k = k'
    · subst h; simp [List.lookup]
    · have : (k == k') = false := by simpa using h
      simp only [List.map_cons, List.contains_cons, List.lookup, this, ih]
      simp

theorem toAcc_contains (t : TAcc) (k : GKey) : (toAcc t).assigned.contains k = (t.assigned.lookup k).isSome :=
  contains_map_fst t.assigned k

/-! ### what the invariant says about one fluent -/

theorem no_assigner {G : List Fired} {k : GKey} (hB : asgB G k = []) (hV : asgV G k = []) :
    ∀ f ∈ G, isAssign f = true → f.key ≠ k := by
  intro f hf ha e
  cases f with
  | setB k' b =>
    simp only [Fired.key] at e; subst e
    have : b ∈ asgB G k' := by
      simp only [asgB, List.mem_filterMap]
      exact ⟨_, hf, by simp [selB]⟩
    rw [hB] at this; cases this
  | setV k' v =>
    simp only [Fired.key] at e; subst e
    have : v ∈ asgV G k' := by
      simp only [asgV, List.mem_filterMap]
      exact ⟨_, hf, by simp [selV]⟩
    rw [hV] at this; cases this
  | delta k' d => cases ha

/-- an assigned fluent has a recorded value; on a Boolean fluent it is a Boolean -/
theorem inv_assigned {cur : GKey → Option Val} {acc : Acc} {G : List Fired} {k : GKey}
    (hI : Inv cur acc G) (h : acc.assigned.contains k = true) :
    (∃ v, acc.upd.lookup k = some v) ∧ (k.1.ty = .bool → ∃ b, acc.upd.lookup k = some (.b b)) := by
  have ha := (hI.asg k).1 h
  rw [hI.vals k]
  by_cases hB : asgB G k = []
  · have hV : asgV G k ≠ [] := by
      rcases ha with ha | ha
      · exact absurd hB ha
      · exact ha
    cases hv : asgV G k with
    | nil => exact absurd hv hV
    | cons v vs =>
      refine ⟨⟨v, newVal_V hB hv⟩, ?_⟩
      intro hb
      have := sorted_bool hI.sorted hb
      rw [hv] at this; cases this
  · exact ⟨⟨_, newVal_B hB⟩, fun _ => ⟨_, newVal_B hB⟩⟩

/-- a fluent with a recorded value that nobody assigned was increased: it has a numeric value in
    the state, and the recorded value is numeric -/
theorem inv_unassigned {cur : GKey → Option Val} {acc : Acc} {G : List Fired} {k : GKey} {v : Val}
    (hI : Inv cur acc G) (h : acc.assigned.contains k = false) (hv : acc.upd.lookup k = some v) :
    ∃ q r, cur k = some (.n q) ∧ v = .n r := by
  have ha : ¬ (asgB G k ≠ [] ∨ asgV G k ≠ []) := by
    intro hc
    have := (hI.asg k).2 hc
    rw [h] at this; cases this
  have hB : asgB G k = [] := by
    by_cases hB : asgB G k = []
    · exact hB
    · exact absurd (Or.inl hB) ha
  have hV : asgV G k = [] := by
    by_cases hV : asgV G k = []
    · exact hV
    · exact absurd (Or.inr hV) ha
  rw [hI.vals k] at hv
  by_cases hD : deltas G k = []
  · rw [newVal_none hB hV hD] at hv; cases hv
  · obtain ⟨q, hq⟩ := (hI.cons k).2.2 hD
    rw [newVal_D hB hV hD hq] at hv
    cases hv
    exact ⟨q, _, hq, rfl⟩

/-! ### one step of the two loops -/

/-- the fluent is not already assigned by ANOTHER action instance -/
def NoCross (acc : TAcc) (tag : Option Nat) (k : GKey) : Prop :=
  ∀ t, acc.assigned.lookup k = some t → t = tag

theorem lookup_cons_self' {β : Type} (k : GKey) (v : β) (l : List (GKey × β)) : ((k, v) :: l).lookup k = some v := by
  simp [List.lookup]
theorem lookup_cons_ne'' {β : Type} {k k' : GKey} (v : β) (l : List (GKey × β)) (h : k ≠ k') :
    ((k', v) :: l).lookup k = l.lookup k := by
  have : (k == k') = false := by simpa using h
  simp [List.lookup, this]

/-! the simulator's step in each situation of the accumulator -/

theorem stepB_fresh {a : Acc} {k : GKey} {b : Bool} (h : a.upd.lookup k = none) :
    stepB a k b = .ok { upd := (k, .b b) :: a.upd, assigned := k :: a.assigned } := by
  simp [stepB, h]
theorem stepB_same {a : Acc} {k : GKey} {b : Bool} (h : a.upd.lookup k = some (.b b))
    (hc : a.assigned.contains k = true) :
    stepB a k b = .ok { upd := (k, .b b) :: a.upd, assigned := k :: a.assigned } := by
  have hm : k ∈ a.assigned := by simpa using hc
  simp [stepB, h, hm]
theorem stepB_add {a : Acc} {k : GKey} (h : a.upd.lookup k = some (.b false)) :
    stepB a k true = .ok { a with upd := (k, .b true) :: a.upd } := by
  simp [stepB, h]
theorem stepB_del {a : Acc} {k : GKey} (h : a.upd.lookup k = some (.b true)) :
    stepB a k false = .ok a := by
  simp [stepB, h]
theorem stepV_fresh {a : Acc} {k : GKey} {v : Val} (h : a.upd.lookup k = none) :
    stepV a k v = .ok { upd := (k, v) :: a.upd, assigned := k :: a.assigned } := by
  simp [stepV, h]
theorem stepV_same {a : Acc} {k : GKey} {v : Val} (h : a.upd.lookup k = some v)
    (hc : a.assigned.contains k = true) :
    stepV a k v = .ok { upd := (k, v) :: a.upd, assigned := k :: a.assigned } := by
  have hm : k ∈ a.assigned := by simpa using hc
  simp [stepV, h, hm]

/-- prepending a binding that is already read, and re-recording an assigned fluent, changes nothing -/
theorem accEq_same {t : TAcc} {k : GKey} {v : Val} (hu : t.upd.lookup k = some v)
    (ha : (t.assigned.lookup k).isSome = true) :
    AccEq (toAcc t) { upd := (k, v) :: (toAcc t).upd, assigned := k :: (toAcc t).assigned } := by
  refine ⟨fun k' => ?_, fun k' => ?_⟩
  · by_cases e : k' = k
    · subst e; simp [toAcc, hu, List.lookup]
    · simp [toAcc, lookup_cons_ne'' _ _ e]
  · by_cases e : k' = k
    · subst e
      simp only [List.contains_cons, BEq.rfl, Bool.true_or]
      rw [toAcc_contains]; exact ha
    · have : (k' == k) = false := by simpa using e
      simp only [List.contains_cons, this, Bool.false_or]

theorem accEq_upd {t : TAcc} {k : GKey} {v w : Val} (ha : (t.assigned.lookup k).isSome = true) :
    AccEq (toAcc { t with upd := (k, v) :: t.upd })
      { upd := (k, v) :: (toAcc t).upd, assigned := k :: (toAcc t).assigned } := by
  refine ⟨fun _ => rfl, fun k' => ?_⟩
  by_cases e : k' = k
  · subst e
    simp only [List.contains_cons, BEq.rfl, Bool.true_or]
    show (toAcc t).assigned.contains k' = true
    rw [toAcc_contains]; exact ha
  · have : (k' == k) = false := by simpa using e
    simp only [toAcc, List.contains_cons, this, Bool.false_or]

/-- assignment to a Boolean fluent: `_apply_effects` succeeds → the simulator's loop succeeds with an
    accumulator that reads the same -/
theorem assignB_ok {cur : GKey → Option Val} {acc acc' : TAcc} {G : List Fired} {k : GKey} {b : Bool}
    {tag : Option Nat} (hI : Inv cur (toAcc acc) G) (hk : k.1.ty = .bool)
    (h : assignStep tag acc k (.b b) = .ok acc') :
    NoCross acc tag k ∧ (∃ sacc, stepB (toAcc acc) k b = .ok sacc ∧ AccEq (toAcc acc') sacc) ∧
      acc'.assigned.lookup k = some tag ∧ ∀ k', k' ≠ k → acc'.assigned.lookup k' = acc.assigned.lookup k' := by
  have hkb : (k.1.ty == Ty.bool) = true := by simp [hk]
  unfold assignStep at h
  cases ha : acc.assigned.lookup k with
  | none =>
    cases hu : acc.upd.lookup k with
    | none =>
      simp only [ha, hu, Option.isSome_none, Bool.or_self, Bool.false_eq_true, ↓reduceIte] at h
      cases h
      refine ⟨(by intro t ht; rw [ha] at ht; cases ht), ⟨_, stepB_fresh (a := toAcc acc) hu, AccEq.rfl' _⟩,
        lookup_cons_self' _ _ _, ?_⟩
      intro k' hk'; exact lookup_cons_ne'' _ _ hk'
    | some old =>
      simp [ha, hu] at h
  | some t =>
    have hc : (toAcc acc).assigned.contains k = true := by rw [toAcc_contains, ha]; rfl
    have has : (acc.assigned.lookup k).isSome = true := by rw [ha]; rfl
    obtain ⟨⟨v, hv⟩, hbv⟩ := inv_assigned hI hc
    obtain ⟨old, hold⟩ := hbv hk
    have hu : acc.upd.lookup k = some (.b old) := hold
    by_cases ht : t = tag
    · subst ht
      simp only [ha, hu, Option.isSome_some, Bool.or_self, ↓reduceIte, hkb] at h
      refine ⟨(by intro t' ht'; rw [ha] at ht'; cases ht'; rfl), ?_, ?_, ?_⟩
      · cases b with
        | true =>
          simp only at h; cases h
          cases old with
          | true => exact ⟨_, stepB_same (a := toAcc acc) hu hc, accEq_upd (w := .b true) has⟩
          | false => exact ⟨_, stepB_add (a := toAcc acc) hu, AccEq.rfl' _⟩
        | false =>
          simp only at h; cases h
          cases old with
          | true => exact ⟨_, stepB_del (a := toAcc acc) hu, AccEq.rfl' _⟩
          | false => exact ⟨_, stepB_same (a := toAcc acc) hu hc, accEq_same hu has⟩
      · cases b <;> (simp only at h; cases h; simp [ha])
      · intro k' hk'
        cases b <;> (simp only at h; cases h; rfl)
    · have : ¬ (some t = some tag) := by intro e; cases e; exact ht rfl
      simp [ha, hu, this] at h

/-- … the same for a numeric / object fluent -/
theorem assignV_ok {cur : GKey → Option Val} {acc acc' : TAcc} {G : List Fired} {k : GKey} {v : Val}
    {tag : Option Nat} (hI : Inv cur (toAcc acc) G) (hk : k.1.ty ≠ .bool)
    (h : assignStep tag acc k v = .ok acc') :
    NoCross acc tag k ∧ (∃ sacc, stepV (toAcc acc) k v = .ok sacc ∧ AccEq (toAcc acc') sacc) ∧
      acc'.assigned.lookup k = some tag ∧ ∀ k', k' ≠ k → acc'.assigned.lookup k' = acc.assigned.lookup k' := by
  have hkb : (k.1.ty == Ty.bool) = false := by simpa using hk
  unfold assignStep at h
  cases ha : acc.assigned.lookup k with
  | none =>
    cases hu : acc.upd.lookup k with
    | none =>
      simp only [ha, hu, Option.isSome_none, Bool.or_self, Bool.false_eq_true, ↓reduceIte] at h
      cases h
      refine ⟨(by intro t ht; rw [ha] at ht; cases ht), ⟨_, stepV_fresh (a := toAcc acc) hu, AccEq.rfl' _⟩,
        lookup_cons_self' _ _ _, ?_⟩
      intro k' hk'; exact lookup_cons_ne'' _ _ hk'
    | some old =>
      simp [ha, hu] at h
  | some t =>
    have hc : (toAcc acc).assigned.contains k = true := by rw [toAcc_contains, ha]; rfl
    have has : (acc.assigned.lookup k).isSome = true := by rw [ha]; rfl
    obtain ⟨⟨v0, hv0⟩, _⟩ := inv_assigned hI hc
    have hu : acc.upd.lookup k = some v0 := hv0
    by_cases ht : t = tag
    · subst ht
      simp only [ha, hu, Option.isSome_some, Bool.or_self, ↓reduceIte, hkb, Bool.false_eq_true] at h
      split at h
      · rename_i hvv
        cases h
        cases hvv
        exact ⟨(by intro t' ht'; rw [ha] at ht'; cases ht'; rfl),
          ⟨_, stepV_same (a := toAcc acc) hu hc, accEq_same hu has⟩, ha, fun _ _ => rfl⟩
      · cases h
    · have : ¬ (some t = some tag) := by intro e; cases e; exact ht rfl
      simp [ha, hu, this] at h

/-- increase / decrease: `_apply_effects` succeeds → the simulator's loop succeeds with the same
    accumulator -/
theorem delta_ok {cur : GKey → Option Val} {acc acc' : TAcc} {G : List Fired} {k : GKey} {d : Rat}
    (hI : Inv cur (toAcc acc) G) (h : deltaStep cur acc k d = .ok acc') :
    stepD cur (toAcc acc) k d = .ok (toAcc acc') ∧ acc'.assigned = acc.assigned := by
  unfold deltaStep at h
  cases ha : acc.assigned.lookup k with
  | some t => simp [ha] at h
  | none =>
    have hc : (toAcc acc).assigned.contains k = false := by rw [toAcc_contains, ha]; rfl
    have hc' : (List.map (fun x => x.fst) acc.assigned).contains k = false := hc
    simp only [ha, Option.isSome_none, Bool.false_eq_true, ↓reduceIte] at h
    unfold curVal at h
    cases hu : acc.upd.lookup k with
    | none =>
      simp only [hu] at h
      cases hcur : cur k with
      | none => simp [hcur] at h
      | some c0 =>
        rw [hcur] at h
        cases c0 with
        | n q =>
          simp only at h; cases h
          refine ⟨?_, rfl⟩
          unfold stepD
          rw [if_neg (by rw [hc]; simp)]
          simp [hcur, toAcc, hu]
        | b x => simp at h
        | o x => simp at h
    | some x =>
      simp only [hu] at h
      obtain ⟨q0, r, hq0, hx⟩ := inv_unassigned hI hc (show (toAcc acc).upd.lookup k = some x from hu)
      subst hx
      simp only at h; cases h
      refine ⟨?_, rfl⟩
      unfold stepD
      rw [if_neg (by rw [hc]; simp)]
      simp [hq0, toAcc, hu]

/-! the converse: when the simulator's loop succeeds and the fluent is not assigned by another
    instance, `_apply_effects` succeeds -/

theorem assignB_conv {cur : GKey → Option Val} {acc : TAcc} {sacc : Acc} {G : List Fired} {k : GKey} {b : Bool}
    {tag : Option Nat} (hI : Inv cur (toAcc acc) G) (hk : k.1.ty = .bool)
    (h : stepB (toAcc acc) k b = .ok sacc) (hn : NoCross acc tag k) :
    ∃ acc', assignStep tag acc k (.b b) = .ok acc' := by
  have hkb : (k.1.ty == Ty.bool) = true := by simp [hk]
  unfold assignStep
  cases ha : acc.assigned.lookup k with
  | none =>
    cases hu : acc.upd.lookup k with
    | none =>
      simp only [Option.isSome_none, Bool.or_self, Bool.false_eq_true, ↓reduceIte]
      exact ⟨_, rfl⟩
    | some old =>
      have hc : (toAcc acc).assigned.contains k = false := by rw [toAcc_contains, ha]; rfl
      obtain ⟨q0, r, _, hx⟩ := inv_unassigned hI hc (show (toAcc acc).upd.lookup k = some old from hu)
      subst hx
      have hu' : (toAcc acc).upd.lookup k = some (.n r) := hu
      simp [stepB, hu'] at h
  | some t =>
    have := hn t ha
    subst this
    simp only [Option.isSome_some, Bool.true_or, ↓reduceIte, hkb]
    cases b <;> exact ⟨_, rfl⟩

theorem assignV_conv {cur : GKey → Option Val} {acc : TAcc} {sacc : Acc} {G : List Fired} {k : GKey} {v : Val}
    {tag : Option Nat} (hI : Inv cur (toAcc acc) G) (hk : k.1.ty ≠ .bool)
    (h : stepV (toAcc acc) k v = .ok sacc) (hn : NoCross acc tag k) :
    ∃ acc', assignStep tag acc k v = .ok acc' := by
  have hkb : (k.1.ty == Ty.bool) = false := by simpa using hk
  unfold assignStep
  cases hu : acc.upd.lookup k with
  | none =>
    cases ha : acc.assigned.lookup k with
    | none =>
      simp only [Option.isSome_none, Bool.or_self, Bool.false_eq_true, ↓reduceIte]
      exact ⟨_, rfl⟩
    | some t =>
      -- impossible: an assigned fluent has a recorded value
      have hc : (toAcc acc).assigned.contains k = true := by rw [toAcc_contains, ha]; rfl
      obtain ⟨⟨v0, hv0⟩, _⟩ := inv_assigned hI hc
      have : acc.upd.lookup k = some v0 := hv0
      rw [hu] at this; cases this
  | some old =>
    have hu' : (toAcc acc).upd.lookup k = some old := hu
    unfold stepV at h
    rw [hu'] at h
    simp only at h
    split at h
    · cases h
    · rename_i hov
      have hov' : old = v := by
        by_cases e : old = v
        · exact e
        · exact absurd e hov
      subst hov'
      split at h
      · cases h
      · rename_i hcc
        have hc : (toAcc acc).assigned.contains k = true := by simpa using hcc
        rw [toAcc_contains] at hc
        cases ha : acc.assigned.lookup k with
        | none => rw [ha] at hc; cases hc
        | some t =>
          have := hn t ha
          subst this
          simp only [Option.isSome_some, Bool.true_or, ↓reduceIte, hkb, Bool.false_eq_true]
          exact ⟨_, rfl⟩

theorem delta_conv {cur : GKey → Option Val} {acc : TAcc} {sacc : Acc} {k : GKey} {d : Rat}
    (h : stepD cur (toAcc acc) k d = .ok sacc) : ∃ acc', deltaStep cur acc k d = .ok acc' := by
  unfold stepD at h
  split at h
  · cases h
  · rename_i hcc
    have hc : (toAcc acc).assigned.contains k = false := by simpa using hcc
    rw [toAcc_contains] at hc
    have ha : acc.assigned.lookup k = none := by
      cases ha : acc.assigned.lookup k with
      | none => rfl
      | some t => rw [ha] at hc; cases hc
    unfold deltaStep curVal
    simp only [ha, Option.isSome_none, Bool.false_eq_true, ↓reduceIte]
    split at h
    · cases h
    · rename_i c0 hcur
      cases hu : acc.upd.lookup k with
      | none =>
        have hu' : (toAcc acc).upd.lookup k = none := hu
        rw [hu'] at h
        simp only [Option.getD_none] at h
        simp only [hcur]
        cases c0 with
        | n q => exact ⟨_, rfl⟩
        | b x => simp at h
        | o x => simp at h
      | some x =>
        have hu' : (toAcc acc).upd.lookup k = some x := hu
        rw [hu'] at h
        simp only [Option.getD_some] at h
        cases x with
        | n q => exact ⟨_, rfl⟩
        | b y => simp at h
        | o y => simp at h

/-! ### the fold -/

theorem assigner_contains {cur : GKey → Option Val} {acc : Acc} {G : List Fired} {k : GKey} {f : Fired}
    (hI : Inv cur acc G) (hf : f ∈ G) (ha : isAssign f = true) (hk : f.key = k) :
    acc.assigned.contains k = true := by
  rw [hI.asg k]
  by_cases hB : asgB G k = []
  · by_cases hV : asgV G k = []
    · exact absurd hk (no_assigner hB hV f hf ha)
    · exact Or.inr hV
  · exact Or.inl hB

theorem exists_assigner {cur : GKey → Option Val} {acc : Acc} {G : List Fired} {k : GKey}
    (hI : Inv cur acc G) (hc : acc.assigned.contains k = true) :
    ∃ f ∈ G, isAssign f = true ∧ f.key = k := by
  rcases (hI.asg k).1 hc with h | h
  · cases hb : asgB G k with
    | nil => exact absurd hb h
    | cons b bs =>
      have : b ∈ asgB G k := by rw [hb]; simp
      simp only [asgB, List.mem_filterMap] at this
      obtain ⟨f, hf, hs⟩ := this
      cases f with
      | setB k' b' =>
        simp only [selB] at hs
        split at hs
        · rename_i e; exact ⟨_, hf, rfl, e⟩
        · cases hs
      | setV k' v => cases hs
      | delta k' d => cases hs
  · cases hb : asgV G k with
    | nil => exact absurd hb h
    | cons b bs =>
      have : b ∈ asgV G k := by rw [hb]; simp
      simp only [asgV, List.mem_filterMap] at this
      obtain ⟨f, hf, hs⟩ := this
      cases f with
      | setV k' b' =>
        simp only [selV] at hs
        split at hs
        · rename_i e; exact ⟨_, hf, rfl, e⟩
        · cases hs
      | setB k' v => cases hs
      | delta k' d => cases hs

/-- the accumulator of `_apply_effects` after the tagged fired effects `TG` -/
structure InvT (cur : GKey → Option Val) (acc : TAcc) (TG : List TFired) : Prop where
  inv : Inv cur (toAcc acc) (TG.map (·.2))
  excl : Exclusive TG
  tags : ∀ k t, acc.assigned.lookup k = some t → ∀ x ∈ TG, isAssign x.2 = true → x.2.key = k → x.1 = t

theorem invT_empty (cur : GKey → Option Val) : InvT cur TAcc.empty [] :=
  ⟨inv_empty cur, (by intro x hx; cases hx), (by intro k t h; cases h)⟩

theorem exclusive_prefix {A B : List TFired} (h : Exclusive (A ++ B)) : Exclusive A :=
  fun x hx y hy => h x (by simp [hx]) y (by simp [hy])

/-- appending an assignment by `tag` to a fluent whose earlier assigners all carry `tag` -/
theorem exclusive_snoc_assign {TG : List TFired} {tag : Option Nat} {f : Fired}
    (he : Exclusive TG) (h : ∀ x ∈ TG, isAssign x.2 = true → x.2.key = f.key → x.1 = tag) :
    Exclusive (TG ++ [(tag, f)]) := by
  intro x hx y hy ax ay hk
  simp only [List.mem_append, List.mem_singleton] at hx hy
  rcases hx with hx | hx <;> rcases hy with hy | hy
  · exact he x hx y hy ax ay hk
  · subst hy; exact h x hx ax hk
  · subst hx; exact (h y hy ay hk.symm).symm
  · subst hx; subst hy; rfl

theorem exclusive_snoc_delta {TG : List TFired} {tag : Option Nat} {k : GKey} {d : Rat}
    (he : Exclusive TG) : Exclusive (TG ++ [(tag, .delta k d)]) := by
  intro x hx y hy ax ay hk
  simp only [List.mem_append, List.mem_singleton] at hx hy
  rcases hx with hx | hx <;> rcases hy with hy | hy
  · exact he x hx y hy ax ay hk
  · subst hy; cases ay
  · subst hx; cases ax
  · subst hx; cases ax

theorem assign_stepT {cur : GKey → Option Val} {acc acc' : TAcc} {TG : List TFired} {f : Fired} {k : GKey}
    {tag : Option Nat} (hT : InvT cur acc TG) (hf : isAssign f = true) (hk : f.key = k)
    (hn : NoCross acc tag k)
    (hinv : Inv cur (toAcc acc') ((TG ++ [(tag, f)]).map (·.2)))
    (hl : acc'.assigned.lookup k = some tag)
    (hl' : ∀ k', k' ≠ k → acc'.assigned.lookup k' = acc.assigned.lookup k') :
    InvT cur acc' (TG ++ [(tag, f)]) := by
  have hold : ∀ x ∈ TG, isAssign x.2 = true → x.2.key = k → x.1 = tag := by
    intro x hx ax kx
    have hc := assigner_contains hT.inv (List.mem_map.2 ⟨x, hx, rfl⟩) ax kx
    rw [toAcc_contains] at hc
    cases ha : acc.assigned.lookup k with
    | none => rw [ha] at hc; cases hc
    | some t =>
      rw [hT.tags k t ha x hx ax kx]
      exact hn t ha
  refine ⟨hinv, exclusive_snoc_assign hT.excl (by rw [hk]; exact hold), ?_⟩
  intro k' t hk' x hx ax kx
  simp only [List.mem_append, List.mem_singleton] at hx
  by_cases e : k' = k
  · subst e
    rw [hl] at hk'; cases hk'
    rcases hx with hx | hx
    · exact hold x hx ax kx
    · subst hx; rfl
  · rw [hl' k' e] at hk'
    rcases hx with hx | hx
    · exact hT.tags k' t hk' x hx ax kx
    · subst hx
      exact absurd (kx.symm.trans hk) e

theorem step_okT {cur : GKey → Option Val} {acc acc' : TAcc} {TG : List TFired} {f : Fired} {tag : Option Nat}
    (hT : InvT cur acc TG) (hs : SortedF f) (h : step cur tag acc f = .ok acc') :
    InvT cur acc' (TG ++ [(tag, f)]) := by
  have hmap : (TG ++ [(tag, f)]).map (·.2) = TG.map (·.2) ++ [f] := by simp
  cases f with
  | setB k b =>
    obtain ⟨hn, ⟨sacc, hsb, heq⟩, hl, hl'⟩ := assignB_ok hT.inv hs h
    have := Sim.step_ok hT.inv hs (show Sim.step cur (toAcc acc) (.setB k b) = .ok sacc from hsb)
    exact assign_stepT hT rfl rfl hn (by rw [hmap]; exact inv_congr heq this) hl hl'
  | setV k v =>
    obtain ⟨hn, ⟨sacc, hsb, heq⟩, hl, hl'⟩ := assignV_ok hT.inv hs h
    have := Sim.step_ok hT.inv hs (show Sim.step cur (toAcc acc) (.setV k v) = .ok sacc from hsb)
    exact assign_stepT hT rfl rfl hn (by rw [hmap]; exact inv_congr heq this) hl hl'
  | delta k d =>
    obtain ⟨hsd, hasg⟩ := delta_ok hT.inv h
    have := Sim.step_ok hT.inv hs (show Sim.step cur (toAcc acc) (.delta k d) = .ok (toAcc acc') from hsd)
    refine ⟨by rw [hmap]; exact this, exclusive_snoc_delta hT.excl, ?_⟩
    intro k' t hk' x hx ax kx
    simp only [List.mem_append, List.mem_singleton] at hx
    rw [hasg] at hk'
    rcases hx with hx | hx
    · exact hT.tags k' t hk' x hx ax kx
    · subst hx; cases ax

/-- `_apply_effects` raises only when the fired effects are inconsistent or some fluent is assigned
    by two different action instances -/
theorem step_errT {cur : GKey → Option Val} {acc : TAcc} {TG : List TFired} {f : Fired} {tag : Option Nat}
    {e : Fail} (hT : InvT cur acc TG) (hs : SortedF f) (h : step cur tag acc f = .error e) :
    ¬ ConsK cur (TG.map (·.2) ++ [f]) f.key ∨ ¬ Exclusive (TG ++ [(tag, f)]) := by
  cases hsim : Sim.step cur (toAcc acc) f with
  | error e' => exact Or.inl (Sim.step_err hT.inv hs hsim)
  | ok sacc =>
    right
    intro hex
    have hcross : ∀ k, isAssign f = true → f.key = k → NoCross acc tag k := by
      intro k af kf t ht
      have hc : (toAcc acc).assigned.contains k = true := by rw [toAcc_contains, ht]; rfl
      obtain ⟨g, hg, ag, kg⟩ := exists_assigner hT.inv hc
      obtain ⟨x, hx, rfl⟩ := List.mem_map.1 hg
      have h1 := hT.tags k t ht x hx ag kg
      have h2 := hex x (by simp [hx]) (tag, f) (by simp) ag af (kg.trans kf.symm)
      rw [← h1, h2]
    cases f with
    | setB k b =>
      obtain ⟨acc', h'⟩ := assignB_conv hT.inv hs hsim (hcross k rfl rfl)
      simp only [step] at h
      rw [h'] at h; cases h
    | setV k v =>
      obtain ⟨acc', h'⟩ := assignV_conv hT.inv hs hsim (hcross k rfl rfl)
      simp only [step] at h
      rw [h'] at h; cases h
    | delta k d =>
      obtain ⟨acc', h'⟩ := delta_conv hsim
      simp only [step] at h
      rw [h'] at h; cases h

theorem foldT_ok {cur : GKey → Option Val} : ∀ (TF : List TFired) {acc acc' : TAcc} {TG : List TFired},
    InvT cur acc TG → Sorted (TF.map (·.2)) → foldT cur TF acc = .ok acc' → InvT cur acc' (TG ++ TF)
  | [], acc, acc', TG, hT, _, h => by
    simp only [foldT] at h
    cases h
    simpa using hT
  | (tag, f) :: TF, acc, acc', TG, hT, hS, h => by
    simp only [foldT] at h
    split at h
    · cases h
    · rename_i a1 h1
      have hT1 := step_okT hT (hS f (by simp)) h1
      have := foldT_ok TF hT1 (fun g hg => hS g (by simp at hg ⊢; exact Or.inr hg)) h
      simpa using this

theorem foldT_err {cur : GKey → Option Val} : ∀ (TF : List TFired) {acc : TAcc} {TG : List TFired} {e : Fail},
    InvT cur acc TG → Sorted (TF.map (·.2)) → foldT cur TF acc = .error e →
      ¬ ((∀ k, ConsK cur ((TG ++ TF).map (·.2)) k) ∧ Exclusive (TG ++ TF))
  | [], acc, TG, e, _, _, h => by
    simp only [foldT] at h
    cases h
  | (tag, f) :: TF, acc, TG, e, hT, hS, h => by
    simp only [foldT] at h
    have e1 : TG ++ (tag, f) :: TF = (TG ++ [(tag, f)]) ++ TF := by simp
    split at h
    · rename_i x h1
      rintro ⟨hall, hex⟩
      rcases step_errT hT (hS f (by simp)) h1 with hc | hc
      · apply hc
        have := hall f.key
        rw [e1, List.map_append] at this
        have := consK_prefix this
        simpa using this
      · apply hc
        rw [e1] at hex
        exact exclusive_prefix hex
    · rename_i a1 h1
      have hT1 := step_okT hT (hS f (by simp)) h1
      rw [e1]
      exact foldT_err TF hT1 (fun g hg => hS g (by simp at hg ⊢; exact Or.inr hg)) h

/-- THE MERGE LEMMA: the accumulator loop of `_apply_effects` succeeds exactly on fired effects that
    are consistent and exclusive, and then records exactly the order-free new values -/
theorem foldT_spec {cur : GKey → Option Val} {TF : List TFired} (hS : Sorted (TF.map (·.2))) :
    match foldT cur TF TAcc.empty with
    | .ok acc => Cons cur (TF.map (·.2)) ∧ Exclusive TF ∧ ∀ k, acc.upd.lookup k = newVal cur (TF.map (·.2)) k
    | .error _ => ¬ (Cons cur (TF.map (·.2)) ∧ Exclusive TF) := by
  cases h : foldT cur TF TAcc.empty with
  | ok acc =>
    have := foldT_ok TF (invT_empty cur) hS h
    simp only [List.nil_append] at this
    exact ⟨(cons_iff cur _).2 this.inv.cons, this.excl, this.inv.vals⟩
  | error e =>
    have := foldT_err TF (invT_empty cur) hS h
    simp only [List.nil_append] at this
    rintro ⟨hc, hx⟩
    exact this ⟨(cons_iff cur _).1 hc, hx⟩

end UPVerif.TT
