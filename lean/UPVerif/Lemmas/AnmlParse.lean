import UPVerif.Lemmas.AnmlNum
import UPVerif.Core.AnmlFragment
/-!
Stage 1 of the reader inverts the writer: parsing the tokens of a printed expression / statement gives back
its statement tree (`toU`, …), for every expression of the fragment and with fuel = number of tokens.
-/
namespace UPVerif.Anml
open Tok

/-! ### the statement trees of printed syntax -/

def uInt (z : Int) : UExpr := if z < 0 then .neg (.num z.natAbs) else .num z.toNat

def renDecls (ρ : Ren) (nm : String → Ty → String) (ds : List (String × Ty)) : List (String × Ty) :=
  ds.map (fun d => (nm d.1 d.2, ρ.renTy d.2))

def uNest (op : Tok) : UExpr → List UExpr → UExpr
  | acc, [] => acc
  | acc, e :: es => uNest op (.bin op acc e) es

def leafU (ρ : Ren) : Leaf → UExpr
  | .boolC b => .bool b
  | .intC z => uInt z
  | .realC r => .bin (sym "/") (uInt r.num) (.num r.den)
  | .obj n _ => .ref (ρ.obj n) []
  | .param n t => .ref (ρ.par n t) []
  | .var v => .ref (ρ.var v.name v.ty) []
  | .timing _ => .bool false
  | .present _ => .bool false

def appU (ρ : Ren) (op : Op) (us : List UExpr) : UExpr :=
  match op with
  | .fluent f => .ref (ρ.fl f.name) us
  | .not => (match us with | [a] => .not a | _ => .bool false)
  | op => (match us with | a :: b :: rest => uNest (opTok op) (.bin (opTok op) a b) rest | _ => .bool false)

mutual
def toU (ρ : Ren) : Expr → UExpr
  | .leaf l => leafU ρ l
  | .app op args => appU ρ op (toUs ρ args)
  | .quant q vs b => .quant q (renDecls ρ ρ.var (varDecls vs)) (toU ρ b)
def toUs (ρ : Ren) : List Expr → List UExpr
  | [] => []
  | e :: es => toU ρ e :: toUs ρ es
end

/-! ### types and declarations -/

theorem intToks_length (z : Int) : 1 ≤ (intToks z).length := by
  unfold intToks; split <;> simp

theorem startsInfinity_intToks (z : Int) (r : List Tok) : startsInfinity (intToks z ++ r) = false := by
  unfold intToks; split <;> simp [startsInfinity]

theorem startsInfinity_realBoundToks (q : Rat) (r : List Tok) : startsInfinity (realBoundToks q ++ r) = false := by
  unfold realBoundToks intToks
  split
  · split <;> simp [startsInfinity]
  · split <;> simp [startsInfinity]

theorem pBounds_int (lb ub : Option Int) (hb : ¬ (lb = none ∧ ub = none)) (r : List Tok) :
    pBounds pIntLit (lowerToks intToks lb ++ sym "," :: upperToks intToks ub ++ r) = some ((lb, ub), r) := by
  cases lb with
  | none =>
    cases ub with
    | none => exact absurd ⟨rfl, rfl⟩ hb
    | some u =>
      simp [lowerToks, upperToks, pBounds, startsBracket, pLower, pUpper, startsInfinity_intToks, pIntLit_intToks]
  | some l =>
    cases ub with
    | none => simp [lowerToks, upperToks, pBounds, startsBracket, pLower, pUpper, startsInfinity, pIntLit_intToks]
    | some u => simp [lowerToks, upperToks, pBounds, startsBracket, pLower, pUpper, startsInfinity_intToks, pIntLit_intToks]

theorem pBounds_real (lb ub : Option Rat) (hb : ¬ (lb = none ∧ ub = none)) (r : List Tok) :
    pBounds pRealLit (lowerToks realBoundToks lb ++ sym "," :: upperToks realBoundToks ub ++ r) = some ((lb, ub), r) := by
  cases lb with
  | none =>
    cases ub with
    | none => exact absurd ⟨rfl, rfl⟩ hb
    | some u =>
      simp [lowerToks, upperToks, pBounds, startsBracket, pLower, pUpper, startsInfinity_realBoundToks, pRealLit_realBoundToks]
  | some l =>
    cases ub with
    | none => simp [lowerToks, upperToks, pBounds, startsBracket, pLower, pUpper, startsInfinity, pRealLit_realBoundToks]
    | some u => simp [lowerToks, upperToks, pBounds, startsBracket, pLower, pUpper, startsInfinity_realBoundToks, pRealLit_realBoundToks]

theorem pBounds_printBounds_int (lb ub : Option Int) (x : String) (r : List Tok) :
    pBounds pIntLit (printBounds intToks lb ub ++ Tok.id x :: r) = some ((lb, ub), Tok.id x :: r) := by
  unfold printBounds
  split
  · rename_i h
    have : lb = none ∧ ub = none := by cases lb <;> cases ub <;> simp_all
    obtain ⟨rfl, rfl⟩ := this
    simp [pBounds, startsBracket]
  · rename_i h
    have := pBounds_int lb ub (by rintro ⟨rfl, rfl⟩; simp at h) (Tok.id x :: r)
    simpa using this

theorem pBounds_printBounds_real (lb ub : Option Rat) (x : String) (r : List Tok) :
    pBounds pRealLit (printBounds realBoundToks lb ub ++ Tok.id x :: r) = some ((lb, ub), Tok.id x :: r) := by
  unfold printBounds
  split
  · rename_i h
    have : lb = none ∧ ub = none := by cases lb <;> cases ub <;> simp_all
    obtain ⟨rfl, rfl⟩ := this
    simp [pBounds, startsBracket]
  · rename_i h
    have := pBounds_real lb ub (by rintro ⟨rfl, rfl⟩; simp at h) (Tok.id x :: r)
    simpa using this

/-- a type name followed by an identifier is read back (renamed) -/
theorem pTy_printTy (ρ : Ren) (t : Ty) (ht : t ≠ .time) (x : String) (r : List Tok) :
    pTy (printTy ρ t ++ Tok.id x :: r) = some (ρ.renTy t, Tok.id x :: r) := by
  cases t with
  | bool => simp [printTy, pTy, Ren.renTy]
  | time => exact absurd rfl ht
  | user n => simp [printTy, pTy, Ren.renTy]
  | int lb ub => simp [printTy, pTy, Ren.renTy, pBounds_printBounds_int]
  | real lb ub => simp [printTy, pTy, Ren.renTy, pBounds_printBounds_real]

theorem printTy_length (ρ : Ren) (t : Ty) : 1 ≤ (printTy ρ t).length := by
  cases t <;> simp [printTy]

theorem printDecls_length (ρ : Ren) (nm : String → Ty → String) :
    ∀ (ds : List (String × Ty)), ds.length ≤ (printDecls ρ nm ds).length
  | [] => by simp [printDecls]
  | [d] => by simp [printDecls]
  | d :: d' :: rest => by
    have := printDecls_length ρ nm (d' :: rest)
    simp only [printDecls, List.length_append, List.length_cons] at this ⊢
    omega

/-- a non-empty declaration list and its closing parenthesis -/
theorem pDecls_printDecls (ρ : Ren) (nm : String → Ty → String) :
    ∀ (ds : List (String × Ty)), ds ≠ [] → (∀ d ∈ ds, d.2 ≠ .time) → ∀ (f : Nat) (r : List Tok), ds.length ≤ f →
      pDecls f (printDecls ρ nm ds ++ sym ")" :: r) = some (renDecls ρ nm ds, r)
  | [], h, _, _, _, _ => absurd rfl h
  | [(n, t)], _, hw, f, r, hf => by
    obtain ⟨f', rfl⟩ : ∃ f', f = f' + 1 := ⟨f - 1, by simp at hf; omega⟩
    have := pTy_printTy ρ t (hw (n, t) (by simp)) (nm n t) (sym ")" :: r)
    simp only [printDecls, List.append_assoc, List.cons_append, List.nil_append, pDecls, this]
    simp [renDecls]
  | (n, t) :: d :: ds, _, hw, f, r, hf => by
    obtain ⟨f', rfl⟩ : ∃ f', f = f' + 1 := ⟨f - 1, by simp at hf; omega⟩
    have h1 := pTy_printTy ρ t (hw (n, t) (by simp)) (nm n t) (sym "," :: (printDecls ρ nm (d :: ds) ++ sym ")" :: r))
    have ih := pDecls_printDecls ρ nm (d :: ds) (by simp) (fun x hx => hw x (by simp [hx])) f' r
      (by simp at hf ⊢; omega)
    simp only [printDecls, List.append_assoc, List.cons_append, pDecls, h1, ih]
    simp [renDecls]

end UPVerif.Anml

namespace UPVerif.Anml
open Tok

/-! ### expressions -/

def NoLp (r : List Tok) : Prop := ∀ r', r ≠ sym "(" :: r'

theorem NoLp_cons {t : Tok} {r : List Tok} (h : t ≠ sym "(") : NoLp (t :: r) := by
  intro r' he; simp only [List.cons.injEq] at he; exact h he.1

def startsOperand : List Tok → Bool
  | num _ :: _ => true
  | kw s :: _ => s == "true" || s == "false"
  | sym s :: _ => s == "-" || s == "("
  | Tok.id _ :: _ => true
  | _ => false

theorem pGroup_operand (f : Nat) (ts : List Tok) (h : startsOperand ts = true) :
    pGroup (f + 1) ts = (pOperand f ts).bind (fun p => pTail f none p.1 p.2) := by
  cases ts with
  | nil => simp [startsOperand] at h
  | cons t r =>
    cases t with
    | kw s =>
      simp only [startsOperand, Bool.or_eq_true, beq_iff_eq] at h
      rcases h with rfl | rfl <;> simp [pGroup] <;> (split <;> simp_all)
    | sym s =>
      simp only [startsOperand, Bool.or_eq_true, beq_iff_eq] at h
      rcases h with rfl | rfl <;> simp [pGroup] <;> (split <;> simp_all)
    | num n => simp [pGroup]; split <;> simp_all
    | id x => simp [pGroup]; split <;> simp_all
    | dec _ _ _ => simp [startsOperand] at h
    | str _ => simp [startsOperand] at h

/-- binary operators of the expression language, as the converter spells them -/
def isInfix : Op → Bool
  | .and | .or | .implies | .iff | .eq | .plus | .minus | .times | .div | .le | .lt => true
  | _ => false

theorem isInfix_facts {op : Op} (h : isInfix op = true) :
    isBinOp (opTok op) = true ∧ sepTok op = opTok op ∧ opTok op ≠ sym "(" ∧ opTok op ≠ sym ")"
    ∧ (∀ ρ n inner, appToks ρ op n inner = sym "(" :: inner ++ [sym ")"])
    ∧ (∀ ρ a b rest, appU ρ op (a :: b :: rest) = uNest (opTok op) (.bin (opTok op) a b) rest)
    ∧ (isNary op = isChainOp (opTok op)) := by
  cases op <;> simp_all [isInfix, isBinOp, sepTok, opTok, appToks, appU, isNary, isChainOp]

theorem pTail_close (f : Nat) (op0 : Option Tok) (a : UExpr) (r : List Tok) :
    pTail (f + 1) op0 a (sym ")" :: r) = some (a, r) := by
  simp [pTail]

theorem pTail_step (f : Nat) (op0 : Option Tok) (op : Tok) (a : UExpr) (X : List Tok)
    (hb : isBinOp op = true) (h0 : op0 = none ∨ (op0 = some op ∧ isChainOp op = true)) :
    pTail (f + 1) op0 a (op :: X) = (pOperand f X).bind (fun p => pTail f (some op) (.bin op a p.1) p.2) := by
  have hne : op ≠ sym ")" := by rintro rfl; simp [isBinOp] at hb
  have hc : (isBinOp op && (op0 == none || (op0 == some op && isChainOp op))) = true := by
    rcases h0 with rfl | ⟨rfl, hch⟩ <;> simp [hb, *]
  simp only [pTail]
  rw [if_pos hc]
  cases pOperand f X <;> rfl

theorem pOperand_intToks (z : Int) (f : Nat) (hf : 2 ≤ f) (r : List Tok) :
    pOperand f (intToks z ++ r) = some (uInt z, r) := by
  obtain ⟨f', rfl⟩ : ∃ f', f = f' + 2 := ⟨f - 2, by omega⟩
  unfold intToks uInt
  split <;> simp [pOperand]

theorem pOperand_id (f : Nat) (x : String) (r : List Tok) (h : NoLp r) :
    pOperand (f + 1) (Tok.id x :: r) = some (.ref x [], r) := by
  cases r with
  | nil => simp [pOperand]
  | cons t r' =>
    have ht : t ≠ sym "(" := fun e => h r' (by rw [e])
    simp [pOperand, ht]

theorem leafToks_length (ρ : Ren) (l : Leaf) : 1 ≤ (leafToks ρ l).length := by
  cases l <;> simp [leafToks]
  · exact intToks_length _

theorem pOperand_leaf (ρ : Ren) (P : AProblem) (params : List (String × Ty)) (vars : List Var) (l : Leaf)
    (hwf : wfLeaf P params vars l = true) (f : Nat) (r : List Tok) (hf : (leafToks ρ l).length ≤ f) (hr : NoLp r) :
    pOperand f (leafToks ρ l ++ r) = some (leafU ρ l, r) := by
  cases l with
  | boolC b =>
    obtain ⟨f', rfl⟩ : ∃ f', f = f' + 1 := ⟨f - 1, by simp [leafToks] at hf; omega⟩
    cases b <;> simp [leafToks, leafU, pOperand]
  | intC z =>
    simp only [leafToks, leafU] at hf ⊢
    have := intToks_length z
    by_cases h2 : 2 ≤ f
    · exact pOperand_intToks z f h2 r
    · -- one token: a non-negative integer
      obtain rfl : f = 1 := by omega
      by_cases hz : z < 0
      · simp [intToks, hz] at hf
      · simp [intToks, uInt, hz, pOperand]
  | realC q =>
    simp only [leafToks, leafU, List.length_cons, List.length_append, List.length_nil] at hf ⊢
    have := intToks_length q.num
    obtain ⟨f', rfl⟩ : ∃ f', f = f' + 4 := ⟨f - 4, by omega⟩
    have h1 := pOperand_intToks q.num (f' + 2) (by omega) (sym "/" :: num q.den :: sym ")" :: r)
    have hs : startsOperand (intToks q.num ++ sym "/" :: num q.den :: sym ")" :: r) = true := by
      unfold intToks; split <;> simp [startsOperand]
    simp only [List.cons_append, List.append_assoc, List.nil_append]
    rw [show f' + 4 = (f' + 3) + 1 from rfl, pOperand, pGroup_operand _ _ hs, h1]
    rw [Option.bind_some, pTail_step _ _ _ _ _ (by simp [isBinOp]) (Or.inl rfl)]
    simp [pOperand, pTail]
  | obj n t =>
    obtain ⟨f', rfl⟩ : ∃ f', f = f' + 1 := ⟨f - 1, by simp [leafToks] at hf; omega⟩
    simpa [leafToks, leafU] using pOperand_id f' _ r hr
  | param n t =>
    obtain ⟨f', rfl⟩ : ∃ f', f = f' + 1 := ⟨f - 1, by simp [leafToks] at hf; omega⟩
    simpa [leafToks, leafU] using pOperand_id f' _ r hr
  | var v =>
    obtain ⟨f', rfl⟩ : ∃ f', f = f' + 1 := ⟨f - 1, by simp [leafToks] at hf; omega⟩
    simpa [leafToks, leafU] using pOperand_id f' _ r hr
  | timing s => simp [wfLeaf] at hwf
  | present s => simp [wfLeaf] at hwf

theorem leafToks_starts (ρ : Ren) (P : AProblem) (params : List (String × Ty)) (vars : List Var) (l : Leaf)
    (hwf : wfLeaf P params vars l = true) (r : List Tok) : startsOperand (leafToks ρ l ++ r) = true := by
  cases l with
  | boolC b => cases b <;> simp [leafToks, startsOperand]
  | intC z => simp only [leafToks]; unfold intToks; split <;> simp [startsOperand]
  | timing s => simp [wfLeaf] at hwf
  | present s => simp [wfLeaf] at hwf
  | _ => simp [leafToks, startsOperand]

theorem appToks_starts (ρ : Ren) (op : Op) (n : Nat) (inner r : List Tok) :
    startsOperand (appToks ρ op n inner ++ r) = true := by
  cases op with
  | fluent f => simp only [appToks]; split <;> simp [startsOperand]
  | _ => simp [appToks, startsOperand]

theorem printE_starts (ρ : Ren) (P : AProblem) (params : List (String × Ty)) (vars : List Var) (e : Expr)
    (hwf : wfE P params vars e = true) (r : List Tok) : startsOperand (printE ρ e ++ r) = true := by
  cases e with
  | leaf l => rw [wfE] at hwf; rw [printE]; exact leafToks_starts ρ P params vars l hwf r
  | app op args => rw [printE]; exact appToks_starts ρ op _ _ r
  | quant q vs b => simp [printE, startsOperand]

theorem appToks_length_pos (ρ : Ren) (op : Op) (n : Nat) (inner : List Tok) : 1 ≤ (appToks ρ op n inner).length := by
  cases op with
  | fluent f => simp only [appToks]; split <;> simp
  | _ => simp [appToks]

theorem printE_length_pos (ρ : Ren) (e : Expr) : 1 ≤ (printE ρ e).length := by
  cases e with
  | leaf l => rw [printE]; exact leafToks_length ρ l
  | app op args => rw [printE]; exact appToks_length_pos ρ op _ _
  | quant q vs b => simp [printE]

end UPVerif.Anml

namespace UPVerif.Anml
open Tok

theorem printSep_starts (ρ : Ren) (P : AProblem) (params : List (String × Ty)) (vars : List Var) (sep : Tok)
    (es : List Expr) (hne : es ≠ []) (hwf : wfEs P params vars es = true) (r : List Tok) :
    startsOperand (printSep ρ sep es ++ r) = true := by
  cases es with
  | nil => exact absurd rfl hne
  | cons e es =>
    rw [wfEs, Bool.and_eq_true] at hwf
    cases es with
    | nil => rw [printSep]; exact printE_starts ρ P params vars e hwf.1 r
    | cons e' es' =>
      rw [printSep, List.append_assoc]; exact printE_starts ρ P params vars e hwf.1 _

theorem wfTy_ne_time {P : AProblem} {t : Ty} (h : wfTy P t = true) : t ≠ .time := by
  rintro rfl; simp [wfTy] at h

theorem isBinOp_ne_lp {t : Tok} (h : isBinOp t = true) : t ≠ sym "(" := by
  rintro rfl; simp [isBinOp] at h

theorem wfApp_infix {P : AProblem} {op : Op} {args : List Expr} (hinf : isInfix op = true)
    (h : wfApp P op args = true) : 2 ≤ args.length ∧ (3 ≤ args.length → isNary op = true) := by
  rcases args with _ | ⟨a, _ | ⟨b, _ | ⟨c, rest⟩⟩⟩ <;> cases op <;> simp_all [wfApp, isInfix, isNary]

mutual
/-- parsing a printed expression gives its statement tree back -/
theorem pOperand_printE (ρ : Ren) (P : AProblem) : ∀ (e : Expr) (params : List (String × Ty)) (vars : List Var),
    wfE P params vars e = true → ∀ (f : Nat) (r : List Tok), (printE ρ e).length ≤ f → NoLp r →
    pOperand f (printE ρ e ++ r) = some (toU ρ e, r)
  | .leaf l, params, vars, hwf, f, r, hf, hr => by
    rw [wfE] at hwf; rw [printE] at hf ⊢; rw [toU]
    exact pOperand_leaf ρ P params vars l hwf f r hf hr
  | .app op args, params, vars, hwf, f, r, hf, hr => by
    rw [wfE, Bool.and_eq_true] at hwf
    obtain ⟨hop, hargs⟩ := hwf
    have ihArgs := pArgs_printSep ρ P args params vars hargs
    have ihChain := pChain_printSep ρ P args params vars hargs
    have ihSingle := pSingle_printSep ρ P args params vars hargs
    rw [printE] at hf ⊢; rw [toU]
    by_cases hinf : isInfix op = true
    · obtain ⟨hb, hsep, hnlp, hnrp, htoks, hU, hnary⟩ := isInfix_facts hinf
      obtain ⟨hlen, hch'⟩ := wfApp_infix hinf hop
      have hch : 3 ≤ args.length → isChainOp (opTok op) = true := by
        intro h3; rw [← hnary]; exact hch' h3
      rw [htoks, hsep] at hf ⊢
      simp only [List.length_cons, List.length_append, List.length_nil] at hf
      obtain ⟨f', rfl⟩ : ∃ f', f = f' + 2 := ⟨f - 2, by omega⟩
      have hne : args ≠ [] := by rintro rfl; simp at hlen
      simp only [List.cons_append, List.append_assoc, List.nil_append]
      rw [show f' + 2 = (f' + 1) + 1 from rfl, pOperand,
        pGroup_operand _ _ (printSep_starts ρ P params vars _ args hne hargs _)]
      rw [ihChain (opTok op) hb hlen hch f' r (by omega)]
      obtain ⟨a, rest, rfl⟩ : ∃ a rest, args = a :: rest := by
        cases args with
        | nil => exact absurd rfl hne
        | cons a rest => exact ⟨a, rest, rfl⟩
      obtain ⟨b, rest', rfl⟩ : ∃ b rest', rest = b :: rest' := by
        cases rest with
        | nil => simp at hlen
        | cons b rest' => exact ⟨b, rest', rfl⟩
      simp only [toUs, hU, uNest]
    · cases op with
      | fluent f0 =>
        cases args with
        | nil =>
          simp only [appToks, List.length_nil, if_pos] at hf ⊢
          obtain ⟨f', rfl⟩ : ∃ f', f = f' + 1 := ⟨f - 1, by simp at hf; omega⟩
          simpa [appU, toUs] using pOperand_id f' _ r hr
        | cons a as =>
          simp only [appToks, List.length_cons, Nat.add_eq_zero_iff, one_ne_zero, and_false, if_false,
            sepTok, List.length_append, List.length_nil] at hf ⊢
          obtain ⟨f', rfl⟩ : ∃ f', f = f' + 2 := ⟨f - 2, by omega⟩
          simp only [List.cons_append, List.append_assoc, List.nil_append]
          rw [show f' + 2 = (f' + 1) + 1 from rfl, pOperand]
          rw [ihArgs (by simp) (f' + 1) r (by omega)]
          simp [appU]
      | not =>
        obtain ⟨a, rfl⟩ : ∃ a, args = [a] := by
          cases args with
          | nil => simp [wfApp] at hop
          | cons a as =>
            cases as with
            | nil => exact ⟨a, rfl⟩
            | cons _ _ => simp [wfApp] at hop
        simp only [appToks, List.length_cons, List.length_append, List.length_nil, sepTok] at hf ⊢
        obtain ⟨f', rfl⟩ : ∃ f', f = f' + 3 := ⟨f - 3, by omega⟩
        simp only [List.cons_append, List.append_assoc, List.nil_append]
        rw [show f' + 3 = (f' + 2) + 1 from rfl, pOperand, show f' + 2 = (f' + 1) + 1 from rfl]
        simp only [pGroup]
        rw [ihSingle _ rfl (f' + 1) (sym ")" :: r) _ (by omega) (NoLp_cons (by simp))]
        simp [appU, toUs]
      | _ => simp_all [wfApp, isInfix]
  | .quant q vs b, params, vars, hwf, f, r, hf, hr => by
    rw [wfE] at hwf
    simp only [Bool.and_eq_true, Bool.not_eq_true', List.all_eq_true] at hwf
    obtain ⟨⟨hne, htys⟩, hb⟩ := hwf
    have ih := pOperand_printE ρ P b params (vs ++ vars) hb
    have hvs : vs ≠ [] := by rintro rfl; simp at hne
    have hdecl := pDecls_printDecls ρ ρ.var (varDecls vs) (by simpa [varDecls] using hvs)
      (by
        intro d hd
        simp only [varDecls, List.mem_map] at hd
        obtain ⟨v, hv, rfl⟩ := hd
        exact wfTy_ne_time (htys v hv))
    have hdl : (varDecls vs).length ≤ (printDecls ρ ρ.var (varDecls vs)).length := printDecls_length ρ ρ.var _
    simp only [printE] at hf ⊢; rw [toU]
    simp only [List.length_cons, List.length_append, List.length_nil] at hf
    have hbl := printE_length_pos ρ b
    obtain ⟨f', rfl⟩ : ∃ f', f = f' + 2 := ⟨f - 2, by omega⟩
    simp only [List.cons_append, List.append_assoc, List.nil_append]
    rw [show f' + 2 = (f' + 1) + 1 from rfl, pOperand]
    cases q <;>
    · simp only [pGroup]
      rw [hdecl f' _ (by omega)]
      simp only
      rw [ih f' (sym ";" :: sym "}" :: sym ")" :: r) (by omega) (NoLp_cons (by simp))]
      rfl
/-- `e , e , … )` -/
theorem pArgs_printSep (ρ : Ren) (P : AProblem) : ∀ (es : List Expr) (params : List (String × Ty)) (vars : List Var),
    wfEs P params vars es = true → es ≠ [] → ∀ (f : Nat) (r : List Tok),
    (printSep ρ (sym ",") es).length + 1 ≤ f →
    pArgs f (printSep ρ (sym ",") es ++ sym ")" :: r) = some (toUs ρ es, r)
  | [], _, _, _, hne, _, _, _ => absurd rfl hne
  | e :: es, params, vars, hwf, _, f, r, hf => by
    rw [wfEs, Bool.and_eq_true] at hwf
    have ihe := pOperand_printE ρ P e params vars hwf.1
    have ihes := pArgs_printSep ρ P es params vars hwf.2
    obtain ⟨f', rfl⟩ : ∃ f', f = f' + 1 := ⟨f - 1, by omega⟩
    cases es with
    | nil =>
      rw [printSep] at hf ⊢
      rw [pArgs, ihe f' (sym ")" :: r) (by omega) (NoLp_cons (by simp))]
      simp [toUs]
    | cons e' es' =>
      rw [printSep] at hf ⊢
      simp only [List.length_append, List.length_cons] at hf
      rw [List.append_assoc, List.cons_append, pArgs,
        ihe f' (sym "," :: (printSep ρ (sym ",") (e' :: es') ++ sym ")" :: r)) (by omega) (NoLp_cons (by simp))]
      simp only
      rw [ihes (by simp) f' r (by omega)]
      simp [toUs]
/-- `op e op e … )` after a first operand -/
theorem pTail_chain (ρ : Ren) (P : AProblem) : ∀ (es : List Expr) (params : List (String × Ty)) (vars : List Var),
    wfEs P params vars es = true → es ≠ [] → ∀ (sep : Tok), isBinOp sep = true →
    (2 ≤ es.length → isChainOp sep = true) → ∀ (op0 : Option Tok),
    (op0 = none ∨ (op0 = some sep ∧ isChainOp sep = true)) → ∀ (acc : UExpr) (f : Nat) (r : List Tok),
    (printSep ρ sep es).length + 2 ≤ f →
    pTail f op0 acc (sep :: (printSep ρ sep es ++ sym ")" :: r)) = some (uNest sep acc (toUs ρ es), r)
  | [], _, _, _, hne, _, _, _, _, _, _, _, _, _ => absurd rfl hne
  | e :: es, params, vars, hwf, _, sep, hb, hch, op0, h0, acc, f, r, hf => by
    rw [wfEs, Bool.and_eq_true] at hwf
    have ihe := pOperand_printE ρ P e params vars hwf.1
    have ihes := pTail_chain ρ P es params vars hwf.2
    obtain ⟨f', rfl⟩ : ∃ f', f = f' + 1 := ⟨f - 1, by omega⟩
    rw [pTail_step _ _ _ _ _ hb h0]
    cases es with
    | nil =>
      rw [printSep] at hf ⊢
      rw [ihe f' (sym ")" :: r) (by omega) (NoLp_cons (by simp)), Option.bind_some]
      obtain ⟨f'', rfl⟩ : ∃ f'', f' = f'' + 1 := ⟨f' - 1, by have := printE_length_pos ρ e; omega⟩
      simp [pTail_close, toUs, uNest]
    | cons e' es' =>
      have hc : isChainOp sep = true := hch (by simp)
      rw [printSep] at hf ⊢
      simp only [List.length_append, List.length_cons] at hf
      rw [List.append_assoc, List.cons_append,
        ihe f' (sep :: (printSep ρ sep (e' :: es') ++ sym ")" :: r)) (by omega) (NoLp_cons (isBinOp_ne_lp hb)),
        Option.bind_some]
      simp only
      rw [ihes (by simp) sep hb (fun _ => hc) (some sep) (Or.inr ⟨rfl, hc⟩) _ f' r (by omega)]
      simp [toUs, uNest]
/-- a whole chain `e op e op e )` -/
theorem pChain_printSep (ρ : Ren) (P : AProblem) : ∀ (es : List Expr) (params : List (String × Ty)) (vars : List Var),
    wfEs P params vars es = true → ∀ (sep : Tok), isBinOp sep = true → 2 ≤ es.length →
    (3 ≤ es.length → isChainOp sep = true) → ∀ (f : Nat) (r : List Tok),
    (printSep ρ sep es).length ≤ f →
    (pOperand f (printSep ρ sep es ++ sym ")" :: r)).bind (fun p => pTail f none p.1 p.2)
      = some (match toUs ρ es with
          | a :: rest => uNest sep a rest
          | [] => .bool false, r)
  | [], _, _, _, _, _, hlen, _, _, _, _ => by simp at hlen
  | e :: es, params, vars, hwf, sep, hb, hlen, hch, f, r, hf => by
    rw [wfEs, Bool.and_eq_true] at hwf
    have ihe := pOperand_printE ρ P e params vars hwf.1
    have ihes := pTail_chain ρ P es params vars hwf.2
    cases es with
    | nil => simp at hlen
    | cons e' es' =>
      rw [printSep] at hf ⊢
      simp only [List.length_append, List.length_cons] at hf
      rw [List.append_assoc, List.cons_append,
        ihe f (sep :: (printSep ρ sep (e' :: es') ++ sym ")" :: r)) (by omega) (NoLp_cons (isBinOp_ne_lp hb)),
        Option.bind_some]
      simp only
      have := printE_length_pos ρ e
      rw [ihes (by simp) sep hb (fun h => hch (by simp at h ⊢; omega)) none (Or.inl rfl) _ f r (by omega)]
      simp [toUs]
/-- a one-element list is printed as its element -/
theorem pSingle_printSep (ρ : Ren) (P : AProblem) : ∀ (es : List Expr) (params : List (String × Ty)) (vars : List Var),
    wfEs P params vars es = true → ∀ (e : Expr), es = [e] → ∀ (f : Nat) (r : List Tok) (sep : Tok),
    (printSep ρ sep es).length ≤ f → NoLp r →
    pOperand f (printSep ρ sep es ++ r) = some (toU ρ e, r)
  | [], _, _, _, _, he, _, _, _, _, _ => by cases he
  | e :: es, params, vars, hwf, e0, he, f, r, sep, hf, hr => by
    rw [wfEs, Bool.and_eq_true] at hwf
    have ihe := pOperand_printE ρ P e params vars hwf.1
    simp only [List.cons.injEq] at he
    obtain ⟨rfl, rfl⟩ := he
    rw [printSep] at hf ⊢
    exact ihe f r hf hr
end

end UPVerif.Anml
