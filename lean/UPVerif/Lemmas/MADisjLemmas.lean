import UPVerif.Lemmas.MASem
import UPVerif.Lemmas.MACondLemmas
import UPVerif.Core.Compile.MADisj
/-!
Helper lemmas for `Props/C37.lean`, disjunctive-conditions side: the disjuncts of a DNF, the
preconditions and the effects `_create_new_action_with_given_precond` builds, the sequencing of the
per-disjunct results.
-/
namespace UPVerif.MA
open UPVerif UPVerif.Expr UPVerif.Sim UPVerif.MASpec

/-! ### `collect` -/

theorem collect_some {α : Type} : ∀ (l : List (Option (Option α))) (bs : List α), collect l = some bs →
    (∀ b, b ∈ bs ↔ some (some b) ∈ l) ∧ (∀ x ∈ l, x ≠ none)
  | [], bs, h => by
    simp only [collect, Option.some.injEq] at h
    subst h; simp
  | none :: rest, bs, h => by simp [collect] at h
  | some none :: rest, bs, h => by
    simp only [collect] at h
    obtain ⟨h1, h2⟩ := collect_some rest bs h
    refine ⟨fun b => ?_, fun x hx => ?_⟩
    · rw [h1 b]; simp
    · rcases List.mem_cons.1 hx with rfl | hx
      · simp
      · exact h2 x hx
  | some (some a) :: rest, bs, h => by
    simp only [collect, Option.map_eq_some_iff] at h
    obtain ⟨bs', hc, rfl⟩ := h
    obtain ⟨h1, h2⟩ := collect_some rest bs' hc
    refine ⟨fun b => ?_, fun x hx => ?_⟩
    · rw [List.mem_cons, h1 b]; simp
    · rcases List.mem_cons.1 hx with rfl | hx
      · simp
      · exact h2 x hx

/-! ### disjuncts -/

theorem disjuncts_sem {V : View} {g : GState} {D : Expr} {v : Bool} (h : bval V g D = some v) :
    (∀ d ∈ disjuncts D, ∃ b, bval V g d = some b) ∧ (disjuncts D).any (holds V g) = v := by
  unfold disjuncts
  split
  · rename_i ds
    unfold bval at h
    rw [bden_or] at h
    cases hb : bdenList (V.interp g) [] ds with
    | none => rw [hb] at h; cases h
    | some bs =>
      rw [hb] at h
      have := bdenList_eq_some.1 hb
      refine ⟨this.1, ?_⟩
      simp only [Option.map_some, Option.some.injEq] at h
      rw [← h, this.2, List.any_map]
      congr 1
      funext d
      exact holds_eq_lval V g d
  · refine ⟨fun d hd => ?_, ?_⟩
    · have : d = D := by simpa using hd
      subst this; exact ⟨v, h⟩
    · simp [holds_of_bval h]

/-! ### preconditions of a split action -/

theorem isFalse_eq {s : Expr} (h : s.isFalse = true) : s = ff := by
  unfold Expr.isFalse at h
  split at h
  · rfl
  · cases h

theorem splitPre_cases {V : View} {g : GState} {simp : Expr → Expr} (hs : SimpSound V g simp)
    {d : Expr} {v : Bool} (hd : bval V g d = some v) :
    (splitPre simp d = none ∧ v = false) ∨
    ∃ pre, splitPre simp d = some pre ∧ pre.all (holds V g) = v := by
  have hb : bval V g (simp d) = some v := hs _ _ hd
  unfold splitPre
  simp only
  generalize simp d = s at hb
  by_cases hf : s.isFalse = true
  · left
    have := isFalse_eq hf
    subst this
    have : bval V g ff = some false := bden_ff
    rw [this] at hb
    exact ⟨by simp [hf], (Option.some.inj hb).symm⟩
  · right
    simp only [hf, Bool.false_eq_true, if_false]
    split
    · rename_i as
      refine ⟨_, rfl, ?_⟩
      rw [all_foldl_addPre]
      simpa using (bval_and hb).1
    · refine ⟨_, rfl, ?_⟩
      rw [all_addPre]
      simp [holds_of_bval hb]

/-! ### effects of a split action -/

theorem splitEffects_eq (simp dnfOf : Expr → Expr) : ∀ (effs : List Effect) (acc : StaticAcc) (out E : List Effect),
    splitEffects simp dnfOf effs acc out = some E → E = out ++ effs.flatMap (splitEffect simp dnfOf)
  | [], _, out, E, h => by
    simp only [splitEffects, Option.some.injEq] at h
    simp [h]
  | e :: es, acc, out, E, h => by
    unfold splitEffects at h
    cases hs : staticAdd (splitEffect simp dnfOf e) acc with
    | none => rw [hs] at h; cases h
    | some acc' =>
      rw [hs] at h
      rw [splitEffects_eq simp dnfOf es acc' _ E h]
      simp [List.append_assoc]

/-- the decidable hypothesis that excludes the cause of D-C37-overlapping-disjuncts: no conditional increase / decrease
    has a condition whose simplified DNF is a disjunction -/
def NoIncDecSplit (simp dnfOf : Expr → Expr) (effs : List Effect) : Prop :=
  ∀ e ∈ effs, e.isConditional = true → e.kind ≠ .assign → isOr (simp (dnfOf e.cond)) = false

/-- fired effect of an assignment is not an increment -/
def isAsg : Fired → Bool
  | .delta _ _ => false
  | _ => true

theorem dupEq_copies {f : Fired} (hf : isAsg f = true) : ∀ (n : Nat), DupEq [f] (List.replicate (n + 1) f) := by
  intro n k
  cases f with
  | delta k' d => cases hf
  | setB k' b =>
    refine ⟨fun x => ?_, fun x => ?_, ?_⟩
    · by_cases hk : k' = k
      · simp [Spec.asgB, Spec.selB, hk]
      · simp [Spec.asgB, Spec.selB, hk]
    · simp [Spec.asgV, Spec.selV, List.filterMap_replicate]
    · simp [Spec.deltas, Spec.selD, List.filterMap_replicate]
  | setV k' w =>
    refine ⟨fun x => ?_, fun x => ?_, ?_⟩
    · simp [Spec.asgB, Spec.selB, List.filterMap_replicate]
    · by_cases hk : k' = k
      · simp [Spec.asgV, Spec.selV, hk]
      · simp [Spec.asgV, Spec.selV, hk]
    · simp [Spec.deltas, Spec.selD, List.filterMap_replicate]

theorem firing_isAsg {V : View} {g : GState} {e : Effect} {k : GKey} {f : Fired}
    (hk : e.kind = .assign) (h : firing V g e k = some f) : isAsg f = true := by
  unfold firing at h
  rw [hk] at h
  split at h
  · cases h
  · simp only at h
    split at h
    · split at h
      · cases h; rfl
      · cases h
    · cases h; rfl

theorem fired_single {V : View} {g : GState} {e : Effect} {o : Option Fired}
    (h : evalEff V g e = some o) : fired V g [e] = some o.toList := by
  simp only [fired, h]
  cases o <;> rfl

theorem filterMap_const_if {α β : Type} (P : α → Bool) (f : β) : ∀ (l : List α),
    l.filterMap (fun d => if P d then some f else none) = List.replicate (l.countP P) f
  | [] => rfl
  | x :: l => by
    rw [List.filterMap_cons, List.countP_cons, filterMap_const_if P f l]
    cases P x <;> simp [List.replicate_succ]

/-- the copies of one effect under the disjuncts of its condition: each fires iff its disjunct holds -/
theorem fired_copies {V : View} {g : GState} {e : Effect} {f : Fired}
    (hf : evalEff V g (uncond e) = some (some f)) : ∀ (ds : List Expr),
    (∀ d ∈ ds, ∃ b, bval V g d = some b) →
    fired V g (ds.map (fun d => { e with cond := d })) =
      some (List.replicate (ds.countP (holds V g)) f)
  | [], _ => rfl
  | d :: ds, hd => by
    obtain ⟨b, hb⟩ := hd d (List.mem_cons_self ..)
    have ih := fired_copies hf ds (fun x hx => hd x (List.mem_cons_of_mem _ hx))
    have he : evalEff V g { e with cond := d } = some (if b then some f else none) :=
      evalEff_of_defined (e := { e with cond := d }) hf hb
    simp only [List.map_cons, fired, he, ih, List.countP_cons, holds_of_bval hb]
    cases b <;> simp [List.replicate_succ]

theorem exists_firing {V : View} {g : GState} {e : Effect} {f : Fired}
    (hf : evalEff V g (uncond e) = some (some f)) : ∃ k, firing V g e k = some f := by
  rw [evalEff_uncond] at hf
  cases ht : target V g e with
  | none => rw [ht] at hf; cases hf
  | some k =>
    rw [ht] at hf
    simp only [Option.bind_some, Option.map_eq_some_iff] at hf
    obtain ⟨f', h1, h2⟩ := hf
    cases h2
    exact ⟨k, h1⟩

theorem evSel_of_defined {V : View} {g : GState} {e : Effect} {f : Fired} {b : Bool}
    (hf : evalEff V g (uncond e) = some (some f)) (hb : bval V g e.cond = some b) :
    evSel V g e = if b then some f else none := by
  unfold evSel; rw [evalEff_of_defined hf hb]; rfl

/-- ONE effect: its copies fire like the original, up to duplicated assignments -/
theorem fired_splitEffect {V : View} {g : GState} {simp dnfOf : Expr → Expr}
    (hs : SimpSound V g simp) (hdn : DnfSound V g dnfOf) {e : Effect} (hD : EffDefined V g e)
    (hno : e.isConditional = true → e.kind ≠ .assign → isOr (simp (dnfOf e.cond)) = false) :
    ∃ F', fired V g (splitEffect simp dnfOf e) = some F' ∧ DupEq (evSel V g e).toList F' := by
  obtain ⟨⟨f, hf⟩, ⟨b, hb⟩⟩ := hD
  have he := evalEff_of_defined hf hb
  have hsel := evSel_of_defined hf hb
  unfold splitEffect
  by_cases hc : e.isConditional = true
  · simp only [hc, if_true]
    have hbc : bval V g (simp (dnfOf e.cond)) = some b := hs _ _ (hdn _ _ hb)
    have hno' := hno hc
    generalize simp (dnfOf e.cond) = c at hbc hno'
    split
    · rename_i ds
      have hds := disjuncts_sem hbc
      simp only [disjuncts] at hds
      refine ⟨_, fired_copies hf ds hds.1, ?_⟩
      rw [hsel]
      cases b with
      | false =>
        have : ds.countP (holds V g) = 0 := by
          rw [List.countP_eq_zero]
          intro d hd hh
          have := hds.2
          rw [List.any_eq_false] at this
          exact this d hd hh
        rw [this]; exact DupEq.refl _
      | true =>
        have hpos : 0 < ds.countP (holds V g) := by
          rw [List.countP_pos_iff]
          have := hds.2
          rw [List.any_eq_true] at this
          exact this
        obtain ⟨n, hn⟩ := Nat.exists_eq_succ_of_ne_zero (Nat.pos_iff_ne_zero.1 hpos)
        rw [hn]
        by_cases hk : e.kind = .assign
        · obtain ⟨k, hfk⟩ := exists_firing hf
          exact dupEq_copies (firing_isAsg hk hfk) n
        · have := hno' hk
          simp [isOr] at this
    · rename_i hnor
      by_cases hfalse : c.isFalse = true
      · simp only [hfalse, if_true]
        refine ⟨[], rfl, ?_⟩
        have := isFalse_eq hfalse
        subst this
        have h2 : bval V g ff = some false := bden_ff
        rw [h2] at hbc
        have : b = false := (Option.some.inj hbc).symm
        subst this
        rw [hsel]; exact DupEq.refl _
      · simp only [hfalse, Bool.false_eq_true, if_false]
        have he' : evalEff V g { e with cond := c } = some (if b then some f else none) :=
          evalEff_of_defined (e := { e with cond := c }) hf hbc
        refine ⟨_, fired_single he', ?_⟩
        rw [hsel]; exact DupEq.refl _
  · simp only [hc, Bool.false_eq_true, if_false]
    refine ⟨_, fired_single he, ?_⟩
    rw [hsel]; exact DupEq.refl _

/-- ALL effects: the split effect list fires like the original one, up to duplicated assignments -/
theorem fired_splitEffects {V : View} {g : GState} {simp dnfOf : Expr → Expr}
    (hs : SimpSound V g simp) (hdn : DnfSound V g dnfOf) : ∀ (effs : List Effect),
    (∀ e ∈ effs, EffDefined V g e) → NoIncDecSplit simp dnfOf effs →
    ∃ F F', fired V g effs = some F ∧ fired V g (effs.flatMap (splitEffect simp dnfOf)) = some F' ∧ DupEq F F'
  | [], _, _ => ⟨[], [], rfl, rfl, DupEq.refl _⟩
  | e :: es, hD, hno => by
    obtain ⟨F, F', h1, h2, h3⟩ := fired_splitEffects hs hdn es (fun x hx => hD x (List.mem_cons_of_mem _ hx))
      (fun x hx => hno x (List.mem_cons_of_mem _ hx))
    obtain ⟨G', g1, g2⟩ := fired_splitEffect hs hdn (hD e (List.mem_cons_self ..)) (hno e (List.mem_cons_self ..))
    obtain ⟨⟨f, hf⟩, ⟨b, hb⟩⟩ := hD e (List.mem_cons_self ..)
    have he := evalEff_of_defined hf hb
    refine ⟨(evSel V g e).toList ++ F, G' ++ F', ?_, ?_, g2.append h3⟩
    · have : e :: es = [e] ++ es := rfl
      rw [this, fired_append, fired_single he, h1]
      simp [evSel, he]
    · rw [List.flatMap_cons, fired_append, g1, h2]

end UPVerif.MA
