import UPVerif.Lemmas.CompileQREval
/-!
QuantifiersRemover, part 2: `ExpressionQuantifiersRemover.remove_quantifiers` preserves every defined value of the
reference denotation (`rq_den`): `Exists` / `Forall` over the problem's objects become the disjunction / conjunction
of the instances of the body, where an instance is the body with the bound variables replaced by object constants
(`subst_objs_sound`: the forward substitution lemma for several variables at once).

Stated in the direction every walker of this development is proved in (C11, C13): "exact where defined".  The
converse needs well-sortedness of the expression (`And(x)` with a non-Boolean `x` is undefined while the
expansion `x` is not) and is not needed for the compiler theorems.
-/
namespace UPVerif.Compile
open UPVerif UPVerif.Expr UPVerif.Sim UPVerif.Spec UPVerif.Simp

/-! ### substitutions of variables by object constants -/

/-- variable ↦ (object name, object type), first match wins -/
abbrev OSub := List (Var × String × String)

def osSubst (τ : OSub) : Subst := τ.map (fun t => (.leaf (.var t.1), .leaf (.obj t.2.1 t.2.2)))
def osEnv (τ : OSub) : VEnv := τ.map (fun t => (t.1, .o t.2.1))
/-- the pairs that stay active below a quantifier over `ws` -/
def osFilter (ws : List Var) (τ : OSub) : OSub := τ.filter (fun t => !ws.contains t.1)

theorem osub_lookup_var (x : Var) : ∀ τ : OSub,
    ((osSubst τ).lookup (.leaf (.var x)) = none ∧ VEnv.get (osEnv τ) x = none) ∨
    ∃ n ty, (osSubst τ).lookup (.leaf (.var x)) = some (.leaf (.obj n ty)) ∧ VEnv.get (osEnv τ) x = some (.o n)
  | [] => Or.inl ⟨rfl, rfl⟩
  | (y, n, ty) :: τ => by
    have ih := osub_lookup_var x τ
    simp only [osSubst, osEnv, List.map_cons, List.lookup_cons, VEnv.get_cons] at ih ⊢
    by_cases hy : y = x
    · subst hy
      right
      exact ⟨n, ty, by simp, by simp⟩
    · have h1 : (Expr.leaf (Leaf.var x) == Expr.leaf (Leaf.var y)) = false := by
        have : ¬ Expr.leaf (Leaf.var x) = Expr.leaf (Leaf.var y) := by
          intro e; injection e with e; injection e with e; exact hy e.symm
        simpa using this
      rw [h1, if_neg hy]
      exact ih

theorem osub_lookup_other (e : Expr) (he : ∀ x, e ≠ .leaf (.var x)) : ∀ τ : OSub, (osSubst τ).lookup e = none
  | [] => rfl
  | (y, n, ty) :: τ => by
    have ih := osub_lookup_other e he τ
    simp only [osSubst, List.map_cons, List.lookup_cons] at ih ⊢
    have h1 : (e == Expr.leaf (Leaf.var y)) = false := by simpa using he y
    rw [h1]
    exact ih

theorem osub_keptUnder (ws : List Var) : ∀ τ : OSub,
    keptUnder ws (osSubst τ) = (osSubst (osFilter ws τ))
  | [] => rfl
  | (y, n, ty) :: τ => by
    have ih := osub_keptUnder ws τ
    unfold keptUnder at ih ⊢
    simp only [osSubst, List.map_cons, osFilter, List.filter_cons, freeVars, List.all_cons, List.all_nil, Bool.and_true] at ih ⊢
    cases ws.contains y with
    | true => simpa using ih
    | false => simpa using ih

theorem osub_env_filter_not_mem (ws : List Var) (y : Var) (hy : y ∉ ws) : ∀ τ : OSub,
    VEnv.get (osEnv (osFilter ws τ)) y = VEnv.get (osEnv τ) y
  | [] => rfl
  | (z, n, ty) :: τ => by
    have ih := osub_env_filter_not_mem ws y hy τ
    simp only [osEnv, osFilter, List.filter_cons, List.map_cons] at ih ⊢
    by_cases hz : ws.contains z = true
    · have hzy : z ≠ y := by
        intro e; subst e; exact hy (by simpa using hz)
      simp only [hz, Bool.not_true, Bool.false_eq_true, if_false]
      rw [VEnv.get_cons, if_neg hzy]
      exact ih
    · have hz' : ws.contains z = false := by simpa using hz
      simp only [hz', Bool.not_false, if_true, List.map_cons]
      rw [VEnv.get_cons, VEnv.get_cons, ih]

theorem osub_env_filter_keys (ws : List Var) : ∀ τ : OSub, ∀ y ∈ (osEnv (osFilter ws τ)).map Prod.fst,
    y ∉ ws
  | [], y, h => by simp [osEnv, osFilter] at h
  | (z, n, ty) :: τ, y, h => by
    simp only [osEnv, osFilter, List.filter_cons] at h
    by_cases hz : ws.contains z = true
    · simp only [hz, Bool.not_true, Bool.false_eq_true, if_false] at h
      exact osub_env_filter_keys ws τ y h
    · have hz' : ws.contains z = false := by simpa using hz
      simp only [hz', Bool.not_false, if_true, List.map_cons, List.mem_cons] at h
      rcases h with rfl | h
      · simpa using hz'
      · exact osub_env_filter_keys ws τ y h

/-- forward substitution lemma for object substitutions: replacing variables by object constants preserves every
    defined value of the expression under the corresponding bindings -/
theorem subst_objs_sound (ι : Interp) :
    (∀ e (τ : OSub) ρ v, den ι ((osEnv τ) ++ ρ) e = some v → den ι ρ (subst (osSubst τ) e) = some v) ∧
    (∀ es (τ : OSub) ρ vs, denList ι ((osEnv τ) ++ ρ) es = some vs → denList ι ρ (substList (osSubst τ) es) = some vs) := by
  have key : ∀ n, (∀ e, e.size ≤ n → ∀ (τ : OSub) ρ v, den ι ((osEnv τ) ++ ρ) e = some v →
        den ι ρ (subst (osSubst τ) e) = some v) ∧
      (∀ es, Expr.sizeList es ≤ n → ∀ (τ : OSub) ρ vs, denList ι ((osEnv τ) ++ ρ) es = some vs →
        denList ι ρ (substList (osSubst τ) es) = some vs) := by
    intro n
    induction n with
    | zero =>
      constructor
      · intro e he; cases e <;> simp [Expr.size] at he
      · intro es he τ ρ vs h
        cases es with
        | nil => rw [substList_nil]; rw [denList_nil] at h ⊢; exact h
        | cons x xs =>
          simp [Expr.sizeList] at he
          cases x <;> simp [Expr.size] at he
    | succ n ih =>
      have hexpr : ∀ e, e.size ≤ n + 1 → ∀ (τ : OSub) ρ v, den ι ((osEnv τ) ++ ρ) e = some v →
          den ι ρ (subst (osSubst τ) e) = some v := by
        intro e he τ ρ v h
        cases e with
        | leaf l =>
          by_cases hl : ∃ x, l = .var x
          · obtain ⟨x, rfl⟩ := hl
            rw [den_leaf] at h
            simp only [denLeaf, VEnv.get_append] at h
            rcases osub_lookup_var x τ with ⟨h1, h2⟩ | ⟨nm, ty, h1, h2⟩
            · rw [subst_leaf_none _ _ h1, den_leaf]
              rw [h2] at h
              simpa [denLeaf] using h
            · rw [subst_of_lookup_some _ _ _ h1, den_leaf]
              rw [h2] at h
              simpa [denLeaf] using h
          · have hne : ∀ x, Expr.leaf l ≠ .leaf (.var x) := by
              intro x e; injection e with e; exact hl ⟨x, e⟩
            rw [subst_leaf_none _ _ (osub_lookup_other _ hne τ)]
            rw [den_leaf] at h ⊢
            cases l with
            | var x => exact absurd ⟨x, rfl⟩ hl
            | _ => exact h
        | app op args =>
          simp only [Expr.size] at he
          rw [subst_app_none _ _ _ (osub_lookup_other _ (by intro x e; cases e) τ)]
          apply rebuild_sound
          obtain ⟨vs, hvs, hop⟩ := den_app_some.1 h
          exact den_app_some.2 ⟨vs, ih.2 args (by omega) τ ρ vs hvs, hop⟩
        | quant q ws b =>
          simp only [Expr.size] at he
          rw [subst_quant_none _ _ _ _ (osub_lookup_other _ (by intro x e; cases e) τ), osub_keptUnder]
          refine den_quant_congr ?_ h
          intro a ha v' hv'
          -- under the binder the variables of `ws` shadow the substitution
          have henv : den ι ((osEnv (osFilter ws τ)) ++ (a ++ ρ)) b = some v' := by
            rw [← hv']
            apply den_congr_env
            intro y _
            by_cases hy : y ∈ ws
            · rw [VEnv.get_append, VEnv.get_eq_none_of_not_mem _ y
                (fun hm => osub_env_filter_keys ws τ y hm hy)]
              simp only [Option.none_or]
              rw [get_under_mem ι ws a ρ y ha hy, get_under_mem ι ws a ((osEnv τ) ++ ρ) y ha hy]
            · rw [VEnv.get_append, osub_env_filter_not_mem ws y hy, get_under_not_mem ι ws a ρ y ha hy,
                get_under_not_mem ι ws a ((osEnv τ) ++ ρ) y ha hy, VEnv.get_append]
          by_cases hemp : (osSubst (osFilter ws τ)).isEmpty = true
          · rw [if_pos hemp]
            have : osFilter ws τ = [] := by
              cases hf : osFilter ws τ with
              | nil => rfl
              | cons t ts => rw [hf] at hemp; simp [osSubst] at hemp
            rw [this] at henv
            exact henv
          · rw [if_neg hemp]
            exact ih.1 b (by omega) _ (a ++ ρ) v' henv
      refine ⟨hexpr, ?_⟩
      intro es he τ ρ vs h
      cases es with
      | nil => rw [substList_nil]; rw [denList_nil] at h ⊢; exact h
      | cons x xs =>
        simp only [Expr.sizeList] at he
        have hx : 1 ≤ x.size := by cases x <;> simp [Expr.size] <;> omega
        rw [substList_cons]
        obtain ⟨w, ws, hw, hws, rfl⟩ := denList_cons_some.1 h
        exact denList_cons_some.2 ⟨w, ws, hexpr x (by omega) τ ρ w hw, ih.2 xs (by omega) τ ρ ws hws, rfl⟩
  exact ⟨fun e τ ρ v h => (key e.size).1 e (Nat.le_refl _) τ ρ v h,
         fun es τ ρ vs h => (key (Expr.sizeList es)).2 es (Nat.le_refl _) τ ρ vs h⟩

/-! ### disjunction / conjunction of a list as a quantifier over its positions -/

theorem allBoolsOpt_eq_denBools (ι : Interp) (ρ : VEnv) : ∀ es : List Expr,
    allBoolsOpt (es.map (den ι ρ)) = denBools ι ρ es
  | [] => by simp [allBoolsOpt, denBools_nil]
  | e :: es => by
    have ih := allBoolsOpt_eq_denBools ι ρ es
    unfold denBools at ih ⊢
    rw [List.map_cons, denList_cons]
    cases he : den ι ρ e with
    | none => simp [allBoolsOpt, consOpt]
    | some v =>
      cases hes : denList ι ρ es with
      | none =>
        rw [hes] at ih
        simp only [Option.bind_none] at ih
        cases v <;> simp [allBoolsOpt, consOpt, ih]
      | some vs =>
        rw [hes] at ih
        simp only [Option.bind_some] at ih
        cases v <;> simp [allBoolsOpt, consOpt, ih, allBools]

theorem den_mkOr_of_quantVal {ι : Interp} {ρ : VEnv} {es : List Expr} {v : Val}
    (h : quantVal .ex (allBoolsOpt (es.map (den ι ρ))) = some v) : den ι ρ (mkOr es) = some v := by
  rw [allBoolsOpt_eq_denBools] at h
  cases hb : denBools ι ρ es with
  | none => rw [hb] at h; cases h
  | some xs =>
    rw [hb] at h
    rw [den_mkOr hb]
    exact h

theorem den_mkAnd_of_quantVal {ι : Interp} {ρ : VEnv} {es : List Expr} {v : Val}
    (h : quantVal .all (allBoolsOpt (es.map (den ι ρ))) = some v) : den ι ρ (mkAnd es) = some v := by
  rw [allBoolsOpt_eq_denBools] at h
  cases hb : denBools ι ρ es with
  | none => rw [hb] at h; cases h
  | some xs =>
    rw [hb] at h
    rw [den_mkAnd hb]
    exact h

/-! ### assignments as tuples of objects -/

/-- the bindings of the variables `vs` to the objects `objs` -/
def zipEnv (vs : List Var) (objs : List String) : VEnv := (vs.zip objs).map (fun vo => (vo.1, Val.o vo.2))

theorem assignments_eq_cartesian {ι : Interp} {P : Problem} (hdom : ∀ t, ι.dom t = (tyDomain P t).map Val.o) :
    ∀ vs : List Var, assignments ι vs = (cartesian (vs.map (fun v => tyDomain P v.ty))).map (zipEnv vs)
  | [] => rfl
  | v :: vs => by
    simp only [assignments, List.map_cons, cartesian, hdom, assignments_eq_cartesian hdom vs, List.flatMap_map,
      List.map_flatMap, List.map_map]
    congr 1

/-- the substitution `remove_quantifiers` builds for one tuple of objects (`dict(zip(vars, objs))`) -/
def tupleSub (P : Problem) (vs : List Var) (objs : List String) : OSub :=
  ((vs.zip objs).map (fun vo => (vo.1, vo.2, (P.objects.lookup vo.2).getD ""))).reverse

theorem tupleSub_subst (P : Problem) (vs : List Var) (objs : List String) :
    osSubst (tupleSub P vs objs) = ((vs.zip objs).map (fun vo => (Expr.leaf (.var vo.1), objExpr P vo.2))).reverse := by
  unfold osSubst tupleSub
  rw [List.map_reverse, List.map_map]
  rfl

theorem tupleSub_env (P : Problem) (vs : List Var) (objs : List String) :
    osEnv (tupleSub P vs objs) = (zipEnv vs objs).reverse := by
  unfold osEnv tupleSub zipEnv
  rw [List.map_reverse, List.map_map]
  rfl

/-- one instance of a quantifier body: the substituted body has the value of the body under the bindings -/
theorem inst_den {ι : Interp} {P : Problem} {vs : List Var} (hnd : vs.Nodup) {objs : List String}
    (ha : zipEnv vs objs ∈ assignments ι vs) {b' : Expr} {ρ : VEnv} {v : Val}
    (h : den ι (zipEnv vs objs ++ ρ) b' = some v) :
    den ι ρ (substE (((vs.zip objs).map (fun vo => (Expr.leaf (.var vo.1), objExpr P vo.2))).reverse) b') = some v := by
  rw [← tupleSub_subst]
  have henv : den ι (osEnv (tupleSub P vs objs) ++ ρ) b' = some v := by
    rw [← h, tupleSub_env]
    apply den_congr_env
    intro y _
    rw [VEnv.get_append, VEnv.get_append,
      venv_get_reverse _ y (by rw [assignments_keys ι vs _ ha]; exact hnd)]
  unfold substE
  split
  · rename_i hemp
    have : tupleSub P vs objs = [] := by
      cases hf : tupleSub P vs objs with
      | nil => rfl
      | cons t ts => rw [hf] at hemp; simp [osSubst] at hemp
    rw [this] at henv
    exact henv
  · exact (subst_objs_sound ι).1 b' _ ρ v henv

/-! ### `remove_quantifiers` -/

/-- `den (removeQuantifiers P e) = den e` wherever `den e` is defined, for interpretations whose quantifier domains
    are the problem's object lists (no non-emptiness hypothesis: over an object-less type both sides are the
    empty disjunction / conjunction) -/
theorem rq_den {ι : Interp} {P : Problem} (hdom : ∀ t, ι.dom t = (tyDomain P t).map Val.o) :
    (∀ e ρ v, qNodup e = true → den ι ρ e = some v → den ι ρ (removeQuantifiers P e) = some v) ∧
    (∀ es ρ vs, qNodupList es = true → denList ι ρ es = some vs →
      denList ι ρ (removeQuantifiersList P es) = some vs) := by
  have key : ∀ n, (∀ e, e.size ≤ n → ∀ ρ v, qNodup e = true → den ι ρ e = some v →
        den ι ρ (removeQuantifiers P e) = some v) ∧
      (∀ es, Expr.sizeList es ≤ n → ∀ ρ vs, qNodupList es = true → denList ι ρ es = some vs →
        denList ι ρ (removeQuantifiersList P es) = some vs) := by
    intro n
    induction n with
    | zero =>
      constructor
      · intro e he; cases e <;> simp [Expr.size] at he
      · intro es he ρ vs _ h
        cases es with
        | nil => exact h
        | cons x xs =>
          simp [Expr.sizeList] at he
          cases x <;> simp [Expr.size] at he
    | succ n ih =>
      have hexpr : ∀ e, e.size ≤ n + 1 → ∀ ρ v, qNodup e = true → den ι ρ e = some v →
          den ι ρ (removeQuantifiers P e) = some v := by
        intro e he ρ v hq h
        cases e with
        | leaf l => exact h
        | app op args =>
          simp only [Expr.size] at he
          simp only [qNodup] at hq
          simp only [removeQuantifiers]
          apply rebuild_sound
          obtain ⟨vs, hvs, hop⟩ := den_app_some.1 h
          exact den_app_some.2 ⟨vs, ih.2 args (by omega) ρ vs hq hvs, hop⟩
        | quant q vs b =>
          simp only [Expr.size] at he
          simp only [qNodup, Bool.and_eq_true, decide_eq_true_eq] at hq
          rw [den_quant] at h
          have hA := assignments_eq_cartesian hdom vs
          -- the instances of the expanded body inherit the values of the body
          have hT : ∀ objs, objs ∈ cartesian (vs.map (fun v => tyDomain P v.ty)) → ∀ y,
              den ι (zipEnv vs objs ++ ρ) b = some (.b y) →
              den ι ρ (substE (((vs.zip objs).map (fun vo => (Expr.leaf (.var vo.1), objExpr P vo.2))).reverse)
                (removeQuantifiers P b)) = some (.b y) := by
            intro objs hobjs y hy
            have hmem : zipEnv vs objs ∈ assignments ι vs := by rw [hA]; exact List.mem_map_of_mem hobjs
            exact inst_den hq.1 hmem (ih.1 b (by omega) _ _ hq.2 hy)
          have htr := quantVal_transfer q (assignments ι vs) (fun a => den ι (a ++ ρ) b)
            (cartesian (vs.map (fun v => tyDomain P v.ty)))
            (fun objs => den ι ρ (substE (((vs.zip objs).map (fun vo => (Expr.leaf (.var vo.1), objExpr P vo.2))).reverse)
              (removeQuantifiers P b)))
            (by
              intro objs hobjs
              refine ⟨zipEnv vs objs, by rw [hA]; exact List.mem_map_of_mem hobjs, ?_⟩
              intro y hy
              exact hT objs hobjs y hy)
            (by
              intro a ha y hy _
              rw [hA] at ha
              obtain ⟨objs, hobjs, rfl⟩ := List.mem_map.1 ha
              exact ⟨objs, hobjs, hT objs hobjs y hy⟩)
            v h
          have htr' : quantVal q (allBoolsOpt (((cartesian (vs.map (fun v => tyDomain P v.ty))).map (fun objs =>
              substE (((vs.zip objs).map (fun vo => (Expr.leaf (.var vo.1), objExpr P vo.2))).reverse)
                (removeQuantifiers P b))).map (den ι ρ))) = some v := by
            rw [List.map_map]; exact htr
          simp only [removeQuantifiers]
          cases q with
          | ex => exact den_mkOr_of_quantVal htr'
          | all => exact den_mkAnd_of_quantVal htr'
      refine ⟨hexpr, ?_⟩
      intro es he ρ vs hq h
      cases es with
      | nil => exact h
      | cons x xs =>
        simp only [Expr.sizeList] at he
        simp only [qNodupList, Bool.and_eq_true] at hq
        have hx : 1 ≤ x.size := by cases x <;> simp [Expr.size] <;> omega
        obtain ⟨w, ws, hw, hws, rfl⟩ := denList_cons_some.1 h
        simp only [removeQuantifiersList]
        exact denList_cons_some.2 ⟨w, ws, hexpr x (by omega) ρ w hq.1 hw, ih.2 xs (by omega) ρ ws hq.2 hws, rfl⟩
  exact ⟨fun e ρ v hq h => (key e.size).1 e (Nat.le_refl _) ρ v hq h,
         fun es ρ vs hq h => (key (Expr.sizeList es)).2 es (Nat.le_refl _) ρ vs hq h⟩

end UPVerif.Compile
