import UPVerif.Core.IFPlanner
import Batteries.Data.List.Perm
/-! Helper lemmas for `Props/C31.lean`, interpreted-functions part: the knowledge dict keeps distinct keys and
only grows, and the shape / termination of every run of `IFPlanner.loop`. -/
namespace UPVerif.IFPlanner
open UPVerif.Oversub (Status Answer)

variable {K V Plan : Type} [DecidableEq K]

/-- the keys of a knowledge dict -/
def keys (l : List (K × V)) : List K := l.map Prod.fst

theorem keys_setKey (k : K) (v : V) : ∀ l : List (K × V),
    keys (setKey k v l) = if k ∈ keys l then keys l else keys l ++ [k]
  | [] => by simp [setKey, keys]
  | (k', v') :: rest => by
    unfold setKey
    by_cases h : k' = k
    · subst h; simp [keys]
    · have ih := keys_setKey k v rest
      have hne : ¬ k = k' := fun e => h e.symm
      simp only [if_neg h, keys, List.map_cons, List.mem_cons, hne, false_or] at ih ⊢
      rw [ih]
      by_cases hk : k ∈ List.map Prod.fst rest
      · simp [hk]
      · simp [hk]

theorem nodup_setKey (k : K) (v : V) (l : List (K × V)) (h : (keys l).Nodup) : (keys (setKey k v l)).Nodup := by
  rw [keys_setKey]
  split
  · exact h
  · rename_i hk
    rw [List.nodup_append]
    refine ⟨h, by simp, ?_⟩
    intro a ha b hb
    have : b = k := by simpa using hb
    subst this
    intro e; subst e; exact hk ha

theorem length_setKey_ge (k : K) (v : V) (l : List (K × V)) : l.length ≤ (setKey k v l).length := by
  have := congrArg List.length (keys_setKey k v l)
  simp only [keys, List.length_map] at this
  rw [this]
  by_cases hk : k ∈ List.map Prod.fst l
  · simp [hk]
  · simp [hk]

theorem mem_keys_setKey (k : K) (v : V) (l : List (K × V)) (x : K) :
    x ∈ keys (setKey k v l) ↔ x ∈ keys l ∨ x = k := by
  rw [keys_setKey]
  split
  · rename_i hk
    constructor
    · exact Or.inl
    · rintro (h | rfl)
      · exact h
      · exact hk
  · simp

theorem nodup_update (know new : List (K × V)) (h : (keys know).Nodup) : (keys (update know new)).Nodup := by
  unfold update
  induction new generalizing know with
  | nil => exact h
  | cons kv rest ih => exact ih _ (nodup_setKey kv.1 kv.2 know h)

theorem length_update_ge (know new : List (K × V)) : know.length ≤ (update know new).length := by
  unfold update
  induction new generalizing know with
  | nil => exact Nat.le_refl _
  | cons kv rest ih => exact Nat.le_trans (length_setKey_ge kv.1 kv.2 know) (ih _)

theorem mem_keys_update (know new : List (K × V)) (x : K) :
    x ∈ keys (update know new) ↔ x ∈ keys know ∨ x ∈ keys new := by
  unfold update
  induction new generalizing know with
  | nil => simp [keys]
  | cons kv rest ih =>
    rw [List.foldl_cons, ih, mem_keys_setKey]
    simp only [keys, List.map_cons, List.mem_cons]
    constructor
    · rintro ((h | h) | h)
      · exact Or.inl h
      · exact Or.inr (Or.inl h)
      · exact Or.inr (Or.inr h)
    · rintro (h | h | h)
      · exact Or.inl (Or.inl h)
      · exact Or.inl (Or.inr h)
      · exact Or.inr h

omit [DecidableEq K] in
/-- a dict with distinct keys drawn from `U` has at most `U.length` entries -/
theorem length_le_universe (know : List (K × V)) (U : List K) (nd : (keys know).Nodup)
    (sub : ∀ x ∈ keys know, x ∈ U) : know.length ≤ U.length := by
  have := (List.subperm_of_subset nd sub).length_le
  simpa [keys] using this

/-- knowledge sets the loop can hold, starting from `K0`: closed under `update` with what the validator reports -/
inductive Reach (validate : Plan → Bool × List (K × V)) (K0 : List (K × V)) : List (K × V) → Prop where
  | refl : Reach validate K0 K0
  | step {K' : List (K × V)} (p : Plan) : Reach validate K0 K' → Reach validate K0 (update K' (validate p).2)

theorem Reach.trans {validate : Plan → Bool × List (K × V)} {K0 K1 K2 : List (K × V)}
    (h1 : Reach validate K0 K1) (h2 : Reach validate K1 K2) : Reach validate K0 K2 := by
  induction h2 with
  | refl => exact h1
  | step p _ ih => exact Reach.step p ih

theorem Reach.nodup {validate : Plan → Bool × List (K × V)} {K0 K1 : List (K × V)}
    (h : Reach validate K0 K1) (nd : (keys K0).Nodup) : (keys K1).Nodup := by
  induction h with
  | refl => exact nd
  | step p _ ih => exact nodup_update _ _ ih

theorem Reach.keys_sub {validate : Plan → Bool × List (K × V)} {K0 K1 : List (K × V)} {U : List K}
    (h : Reach validate K0 K1) (h0 : ∀ x ∈ keys K0, x ∈ U) (hv : ∀ p, ∀ x ∈ keys (validate p).2, x ∈ U) :
    ∀ x ∈ keys K1, x ∈ U := by
  induction h with
  | refl => exact h0
  | step p _ ih =>
    intro x hx
    rcases (mem_keys_update _ _ x).mp hx with h | h
    · exact ih x h
    · exact hv p x h

variable (solveAt : Nat → List (K × V) → Answer Plan) (validate : Plan → Bool × List (K × V))

/-- a returned plan was produced by the underlying planner for some reachable knowledge and ACCEPTED by the
    validator; the returned status is the underlying planner's -/
theorem loop_done_some : ∀ (fuel i : Nat) (know : List (K × V)) (st : Status) (p : Plan) (m : Nat),
    loop solveAt validate fuel i know = (.done st (some p), m) →
    (validate p).1 = true ∧ st.isPositive = true ∧
      ∃ j K', Reach validate know K' ∧ (solveAt j K').status = st ∧ (solveAt j K').plan = some p
  | 0, i, know, st, p, m => by intro h; simp [loop] at h
  | fuel + 1, i, know, st, p, m => by
    intro h
    unfold loop at h
    simp only at h
    split at h
    · rename_i hpos
      split at h
      · simp at h
      · rename_i p' hp'
        split at h
        · rename_i hv
          simp only [Prod.mk.injEq, Outcome.done.injEq, Option.some.injEq] at h
          obtain ⟨⟨hst, hp⟩, _⟩ := h
          subst hp
          exact ⟨hv, hst ▸ hpos, i, know, Reach.refl, hst, hp'⟩
        · split at h
          · obtain ⟨h1, h2, j, K', hr, h3, h4⟩ := loop_done_some fuel (i + 1) _ st p m h
            exact ⟨h1, h2, j, K', (Reach.step p' Reach.refl).trans hr, h3, h4⟩
          · simp at h
    · simp at h

/-- a result without plan carries the (non-positive) status the underlying planner gave for some reachable knowledge -/
theorem loop_done_none : ∀ (fuel i : Nat) (know : List (K × V)) (st : Status) (m : Nat),
    loop solveAt validate fuel i know = (.done st none, m) →
    st.isPositive = false ∧ ∃ j K', Reach validate know K' ∧ (solveAt j K').status = st
  | 0, i, know, st, m => by intro h; simp [loop] at h
  | fuel + 1, i, know, st, m => by
    intro h
    unfold loop at h
    simp only at h
    split at h
    · split at h
      · simp at h
      · rename_i p' hp'
        split at h
        · simp at h
        · split at h
          · obtain ⟨h1, j, K', hr, h3⟩ := loop_done_none fuel (i + 1) _ st m h
            exact ⟨h1, j, K', (Reach.step p' Reach.refl).trans hr, h3⟩
          · simp at h
    · rename_i hpos
      simp only [Prod.mk.injEq, Outcome.done.injEq, and_true] at h
      exact ⟨by rw [← h.1]; simpa using hpos, i, know, Reach.refl, h.1⟩

/-- the loop raises "no progress" only if a plan returned for some reachable knowledge was rejected by the
    validator without teaching anything new -/
theorem loop_noProgress : ∀ (fuel i : Nat) (know : List (K × V)) (m : Nat),
    loop solveAt validate fuel i know = (.noProgress, m) →
    ∃ j K' p, Reach validate know K' ∧ (solveAt j K').status.isPositive = true ∧ (solveAt j K').plan = some p ∧
      (validate p).1 = false ∧ (update K' (validate p).2).length ≤ K'.length
  | 0, i, know, m => by intro h; simp [loop] at h
  | fuel + 1, i, know, m => by
    intro h
    unfold loop at h
    simp only at h
    split at h
    · rename_i hpos
      split at h
      · simp at h
      · rename_i p' hp'
        split at h
        · simp at h
        · rename_i hv
          split at h
          · obtain ⟨j, K', p, hr, h0, h1, h2, h3⟩ := loop_noProgress fuel (i + 1) _ m h
            exact ⟨j, K', p, (Reach.step p' Reach.refl).trans hr, h0, h1, h2, h3⟩
          · rename_i hlen
            exact ⟨i, know, p', Reach.refl, hpos, hp', by simpa using hv, by omega⟩
    · simp at h

/-- the assertion `res.plan is not None` fails only on a positive answer without plan -/
theorem loop_noPlan : ∀ (fuel i : Nat) (know : List (K × V)) (m : Nat),
    loop solveAt validate fuel i know = (.noPlan, m) →
    ∃ j K', (solveAt j K').status.isPositive = true ∧ (solveAt j K').plan = none
  | 0, i, know, m => by intro h; simp [loop] at h
  | fuel + 1, i, know, m => by
    intro h
    unfold loop at h
    simp only at h
    split at h
    · rename_i hpos
      split at h
      · rename_i hnone
        exact ⟨i, know, hpos, hnone⟩
      · split at h
        · simp at h
        · split at h
          · exact loop_noPlan fuel (i + 1) _ m h
          · simp at h
    · simp at h

/-- fuel: with distinct keys drawn from a finite universe `U`, `U.length + 1 - know.length` iterations suffice,
    because every iteration that goes on strictly enlarges the knowledge (the code raises otherwise) -/
theorem loop_fuel (U : List K) (hv : ∀ p, ∀ x ∈ keys (validate p).2, x ∈ U) :
    ∀ (fuel i : Nat) (know : List (K × V)), (keys know).Nodup → (∀ x ∈ keys know, x ∈ U) →
      U.length + 1 ≤ fuel + know.length → (loop solveAt validate fuel i know).1 ≠ .outOfFuel
  | 0, i, know, nd, sub, hf => by
    have := length_le_universe know U nd sub
    omega
  | fuel + 1, i, know, nd, sub, hf => by
    unfold loop
    simp only
    split
    · split
      · simp
      · rename_i p' _
        split
        · simp
        · split
          · rename_i hlen
            apply loop_fuel U hv fuel (i + 1) _ (nodup_update _ _ nd)
            · intro x hx
              rcases (mem_keys_update _ _ x).mp hx with h | h
              · exact sub x h
              · exact hv p' x h
            · omega
          · simp
    · simp

end UPVerif.IFPlanner
