import UPVerif.Lemmas.FromPddlBool
/-!
Helper lemmas for C21: the relations between what the two readers build from one piece of text, and their congruence
laws for every constructor the readers use.

* `EqB e e'`  — the same truth value (or both undefined) under every instantiation in every well-typed context;
* `GdRel e e'` — for conditions: both are built like conditions, same free variables, `EqB`; implies `EqW`;
* `FRel e e'`  — for numeric expressions and terms: same free variables, `EqW`.
-/
namespace UPVerif.FromPddl
open UPVerif UPVerif.Expr

def EqB (e e' : Expr) : Prop :=
  ∀ (σs : List Subst) (c : EvalCtx) (ρ : VEnv), WTCtx c → bval c ρ (instAll σs e) = bval c ρ (instAll σs e')

theorem EqB.refl (e : Expr) : EqB e e := fun _ _ _ _ => rfl
theorem EqB.symm {e e' : Expr} (h : EqB e e') : EqB e' e := fun σs c ρ w => (h σs c ρ w).symm
theorem EqB.trans {a b d : Expr} (h1 : EqB a b) (h2 : EqB b d) : EqB a d :=
  fun σs c ρ w => (h1 σs c ρ w).trans (h2 σs c ρ w)

theorem EqW.eqB {e e' : Expr} (h : EqW e e') : EqB e e' := by
  intro σs c ρ w
  unfold bval
  rw [bvalR_obs, bvalR_obs, h σs c ρ w]

/-! ### `boolWF` is kept by instantiation -/

mutual
theorem boolWF_inst (σ : Subst) : ∀ e : Expr, boolWF e = true → boolWF (inst σ e) = true
  | .leaf (.boolC b), _ => by rw [inst]; rfl
  | .leaf (.intC _), h | .leaf (.realC _), h | .leaf (.obj _ _), h | .leaf (.param _ _), h | .leaf (.var _), h
  | .leaf (.timing _), h | .leaf (.present _), h => by simp [boolWF] at h
  | .app .and as, h => by
    rw [inst]; simp only [boolWF] at h ⊢; exact boolWFList_inst σ as h
  | .app .or as, h => by
    rw [inst]; simp only [boolWF] at h ⊢; exact boolWFList_inst σ as h
  | .app (.fluent f) as, h => by rw [inst]; simpa [boolWF] using h
  | .app .not [a], h => by
    rw [inst, instList, instList]; simp only [boolWF] at h ⊢; exact boolWF_inst σ a h
  | .app .not [], h | .app .not (_ :: _ :: _), h => by simp [boolWF] at h
  | .app .implies [a, b], h => by
    rw [inst, instList, instList, instList]
    simp only [boolWF, Bool.and_eq_true] at h ⊢
    exact ⟨boolWF_inst σ a h.1, boolWF_inst σ b h.2⟩
  | .app .implies [], h | .app .implies [_], h | .app .implies (_ :: _ :: _ :: _), h => by simp [boolWF] at h
  | .app .le [a, b], _ => by rw [inst, instList, instList, instList]; rfl
  | .app .le [], h | .app .le [_], h | .app .le (_ :: _ :: _ :: _), h => by simp [boolWF] at h
  | .app .lt [a, b], _ => by rw [inst, instList, instList, instList]; rfl
  | .app .lt [], h | .app .lt [_], h | .app .lt (_ :: _ :: _ :: _), h => by simp [boolWF] at h
  | .app .eq [a, b], _ => by rw [inst, instList, instList, instList]; rfl
  | .app .eq [], h | .app .eq [_], h | .app .eq (_ :: _ :: _ :: _), h => by simp [boolWF] at h
  | .app .iff _, h | .app (.ifun _) _, h | .app (.dot _) _, h | .app .plus _, h | .app .minus _, h | .app .times _, h
  | .app .div _, h | .app .always _, h | .app .sometime _, h | .app .sometimeBefore _, h | .app .sometimeAfter _, h
  | .app .atMostOnce _, h => by simp [boolWF] at h
  | .quant q vs b, h => by
    rw [inst]; simp only [boolWF] at h ⊢; exact boolWF_inst _ b h
theorem boolWFList_inst (σ : Subst) : ∀ es : List Expr, boolWFList es = true → boolWFList (instList σ es) = true
  | [], _ => by rw [instList]; rfl
  | e :: es, h => by
    rw [instList]
    simp only [boolWFList, Bool.and_eq_true] at h ⊢
    exact ⟨boolWF_inst σ e h.1, boolWFList_inst σ es h.2⟩
end

theorem boolWF_instAll : ∀ (σs : List Subst) (e : Expr), boolWF e = true → boolWF (instAll σs e) = true
  | [], _, h => h
  | σ :: σs, e, h => boolWF_instAll σs _ (boolWF_inst σ e h)

/-- for conditions the truth value determines the result -/
theorem EqB.eqW {e e' : Expr} (h : EqB e e') (w1 : boolWF e = true) (w2 : boolWF e' = true) : EqW e e' := by
  intro σs c ρ w
  rw [obs_of_isBoolR (boolWF_isBool c w ρ _ (boolWF_instAll σs e w1)),
    obs_of_isBoolR (boolWF_isBool c w ρ _ (boolWF_instAll σs e' w2))]
  have := h σs c ρ w
  unfold bval at this
  rw [this]

structure GdRel (e e' : Expr) : Prop where
  wf : boolWF e = true
  wf' : boolWF e' = true
  fv : SameFV e e'
  eq : EqB e e'

structure FRel (e e' : Expr) : Prop where
  fv : SameFV e e'
  eq : EqW e e'

theorem GdRel.eqW {e e' : Expr} (h : GdRel e e') : EqW e e' := h.eq.eqW h.wf h.wf'
theorem GdRel.trans {a b d : Expr} (h1 : GdRel a b) (h2 : GdRel b d) : GdRel a d :=
  ⟨h1.wf, h2.wf', h1.fv.trans h2.fv, h1.eq.trans h2.eq⟩
theorem GdRel.refl {e : Expr} (h : boolWF e = true) : GdRel e e := ⟨h, h, SameFV.refl e, EqB.refl e⟩
theorem FRel.refl (e : Expr) : FRel e e := ⟨SameFV.refl e, EqW.refl e⟩
theorem FRel.trans {a b d : Expr} (h1 : FRel a b) (h2 : FRel b d) : FRel a d := ⟨h1.fv.trans h2.fv, h1.eq.trans h2.eq⟩

/-! ### conjunction, disjunction -/

theorem boolWF_mkAnd : ∀ xs : List Expr, (∀ x ∈ xs, boolWF x = true) → boolWF (mkAnd xs) = true
  | [], _ => rfl
  | [x], h => h x (List.mem_singleton.2 rfl)
  | x :: y :: r, h => by
    rw [show mkAnd (x :: y :: r) = .app .and (x :: y :: r) from rfl, boolWF, boolWFList_iff]; exact h

theorem boolWF_mkOr : ∀ xs : List Expr, (∀ x ∈ xs, boolWF x = true) → boolWF (mkOr xs) = true
  | [], _ => rfl
  | [x], h => h x (List.mem_singleton.2 rfl)
  | x :: y :: r, h => by
    rw [show mkOr (x :: y :: r) = .app .or (x :: y :: r) from rfl, boolWF, boolWFList_iff]; exact h

theorem mem_freeVars_mkAnd (v : Var) : ∀ xs : List Expr, v ∈ freeVars (mkAnd xs) ↔ ∃ x ∈ xs, v ∈ freeVars x
  | [] => by simp [mkAnd, tt, freeVars]
  | [x] => by simp [mkAnd]
  | x :: y :: r => by
    rw [show mkAnd (x :: y :: r) = .app .and (x :: y :: r) from rfl, freeVars, mem_freeVarsList]

theorem mem_freeVars_mkOr (v : Var) : ∀ xs : List Expr, v ∈ freeVars (mkOr xs) ↔ ∃ x ∈ xs, v ∈ freeVars x
  | [] => by simp [mkOr, ff, freeVars]
  | [x] => by simp [mkOr]
  | x :: y :: r => by
    rw [show mkOr (x :: y :: r) = .app .or (x :: y :: r) from rfl, freeVars, mem_freeVarsList]

theorem all2_mem_left {α β : Type} {R : α → β → Prop} : ∀ {as : List α} {bs : List β}, All2 R as bs →
    ∀ a ∈ as, ∃ b ∈ bs, R a b
  | _ :: _, _ :: _, h, a, hm => by
    rcases List.mem_cons.1 hm with rfl | hm
    · exact ⟨_, List.mem_cons_self .., h.1⟩
    · obtain ⟨b, hb, hr⟩ := all2_mem_left h.2 a hm
      exact ⟨b, List.mem_cons_of_mem _ hb, hr⟩
  | [], _, _, _, hm => by cases hm

theorem all2_mem_right {α β : Type} {R : α → β → Prop} : ∀ {as : List α} {bs : List β}, All2 R as bs →
    ∀ b ∈ bs, ∃ a ∈ as, R a b
  | _ :: _, _ :: _, h, b, hm => by
    rcases List.mem_cons.1 hm with rfl | hm
    · exact ⟨_, List.mem_cons_self .., h.1⟩
    · obtain ⟨a, ha, hr⟩ := all2_mem_right h.2 b hm
      exact ⟨a, List.mem_cons_of_mem _ ha, hr⟩
  | [], [], _, _, hm => by cases hm
  | _ :: _, [], h, _, _ => h.elim

theorem map_congr_all2 {α β γ : Type} {R : α → β → Prop} (f : α → γ) (g : β → γ) (h : ∀ a b, R a b → f a = g b) :
    ∀ {as : List α} {bs : List β}, All2 R as bs → as.map f = bs.map g
  | [], [], _ => rfl
  | a :: as, b :: bs, hr => by simp [h a b hr.1, map_congr_all2 f g h hr.2]
  | [], _ :: _, hr => hr.elim
  | _ :: _, [], hr => hr.elim

/-- `And` of pairwise related conditions -/
theorem GdRel.mkAnd {es as : List Expr} (h : All2 GdRel es as) : GdRel (mkAnd es) (mkAnd as) where
  wf := boolWF_mkAnd es (fun x hx => by obtain ⟨b, _, hr⟩ := all2_mem_left h x hx; exact hr.wf)
  wf' := boolWF_mkAnd as (fun x hx => by obtain ⟨b, _, hr⟩ := all2_mem_right h x hx; exact hr.wf')
  fv := by
    intro v
    rw [mem_freeVars_mkAnd, mem_freeVars_mkAnd]
    constructor
    · rintro ⟨x, hx, hv⟩
      obtain ⟨b, hb, hr⟩ := all2_mem_left h x hx
      exact ⟨b, hb, (hr.fv v).1 hv⟩
    · rintro ⟨x, hx, hv⟩
      obtain ⟨a, ha, hr⟩ := all2_mem_right h x hx
      exact ⟨a, ha, (hr.fv v).2 hv⟩
  eq := by
    intro σs c ρ w
    rw [instAll_mkAnd, instAll_mkAnd, bval_mkAnd, bval_mkAnd, List.map_map, List.map_map]
    congr 1
    exact map_congr_all2 _ _ (fun a b hr => hr.eq σs c ρ w) h

theorem GdRel.mkOr {es as : List Expr} (h : All2 GdRel es as) : GdRel (mkOr es) (mkOr as) where
  wf := boolWF_mkOr es (fun x hx => by obtain ⟨b, _, hr⟩ := all2_mem_left h x hx; exact hr.wf)
  wf' := boolWF_mkOr as (fun x hx => by obtain ⟨b, _, hr⟩ := all2_mem_right h x hx; exact hr.wf')
  fv := by
    intro v
    rw [mem_freeVars_mkOr, mem_freeVars_mkOr]
    constructor
    · rintro ⟨x, hx, hv⟩
      obtain ⟨b, hb, hr⟩ := all2_mem_left h x hx
      exact ⟨b, hb, (hr.fv v).1 hv⟩
    · rintro ⟨x, hx, hv⟩
      obtain ⟨a, ha, hr⟩ := all2_mem_right h x hx
      exact ⟨a, ha, (hr.fv v).2 hv⟩
  eq := by
    intro σs c ρ w
    rw [instAll_mkOr, instAll_mkOr, bval_mkOr, bval_mkOr, List.map_map, List.map_map]
    congr 1
    exact map_congr_all2 _ _ (fun a b hr => hr.eq σs c ρ w) h

/-! ### negation, implication -/

theorem mkNot_cases (x : Expr) : (∃ y, x = .app .not [y] ∧ mkNot x = y) ∨ mkNot x = .app .not [x] := by
  unfold mkNot
  split
  · rename_i y; exact Or.inl ⟨y, rfl, rfl⟩
  · exact Or.inr rfl

theorem bval_not (c : EvalCtx) (ρ : VEnv) (x : Expr) : bval c ρ (.app .not [x]) = (bval c ρ x).map (!·) := by
  unfold bval
  simp only [eval, evalList]
  cases h : eval c ρ x with
  | error y => rfl
  | ok v =>
    cases v with
    | b b => rfl
    | n q => rfl
    | o s => rfl

theorem bval_implies (c : EvalCtx) (ρ : VEnv) (x y : Expr) :
    bval c ρ (.app .implies [x, y]) = (match bval c ρ x, bval c ρ y with
      | some a, some b => some (!a || b)
      | _, _ => none) := by
  unfold bval
  simp only [eval, evalList]
  cases hy : eval c ρ y with
  | error e => cases hx : eval c ρ x with
    | error e' => rfl
    | ok v => cases v <;> rfl
  | ok w =>
    cases hx : eval c ρ x with
    | error e' => cases w <;> rfl
    | ok v => cases v <;> cases w <;> rfl

theorem bval_instAll_mkNot (σs : List Subst) (c : EvalCtx) (ρ : VEnv) (x : Expr) :
    bval c ρ (instAll σs (mkNot x)) = (bval c ρ (instAll σs x)).map (!·) := by
  rcases mkNot_cases x with ⟨y, rfl, h⟩ | h
  · rw [h, instAll_app, List.map_cons, List.map_nil, bval_not]
    cases bval c ρ (instAll σs y) <;> simp
  · rw [h, instAll_app, List.map_cons, List.map_nil, bval_not]

theorem boolWF_mkNot (x : Expr) (h : boolWF x = true) : boolWF (mkNot x) = true := by
  rcases mkNot_cases x with ⟨y, rfl, h'⟩ | h'
  · rw [h']; simpa [boolWF] using h
  · rw [h']; simpa [boolWF] using h

theorem sameFV_mkNot (x : Expr) : SameFV (mkNot x) x := by
  intro v
  rcases mkNot_cases x with ⟨y, rfl, h'⟩ | h'
  · rw [h']; simp [freeVars, freeVarsList]
  · rw [h']; simp [freeVars, freeVarsList]

theorem GdRel.mkNot {e a : Expr} (h : GdRel e a) : GdRel (mkNot e) (mkNot a) where
  wf := boolWF_mkNot e h.wf
  wf' := boolWF_mkNot a h.wf'
  fv := (sameFV_mkNot e).trans (h.fv.trans (sameFV_mkNot a).symm)
  eq := by
    intro σs c ρ w
    rw [bval_instAll_mkNot, bval_instAll_mkNot, h.eq σs c ρ w]

theorem GdRel.mkImplies {e1 e2 a1 a2 : Expr} (h1 : GdRel e1 a1) (h2 : GdRel e2 a2) :
    GdRel (mkImplies e1 e2) (mkImplies a1 a2) where
  wf := by simp [Expr.mkImplies, boolWF, h1.wf, h2.wf]
  wf' := by simp [Expr.mkImplies, boolWF, h1.wf', h2.wf']
  fv := SameFV.app _ _ (show All2 SameFV [e1, e2] [a1, a2] from ⟨h1.fv, h2.fv, trivial⟩)
  eq := by
    intro σs c ρ w
    simp only [Expr.mkImplies, instAll_app, List.map_cons, List.map_nil, bval_implies, h1.eq σs c ρ w, h2.eq σs c ρ w]

/-! ### quantifiers -/

theorem existsLoop_bval (f g : VEnv → Except EvalErr Val) (h : ∀ a, bvalR (f a) = bvalR (g a)) : ∀ l : List VEnv,
    bvalR (existsLoop f l) = bvalR (existsLoop g l)
  | [] => rfl
  | a :: as => by
    have ha := h a
    unfold existsLoop
    cases hf : f a with
    | error x =>
      rw [hf] at ha
      cases hg : g a with
      | error y => rfl
      | ok v => rw [hg] at ha; cases v <;> simp [bvalR] at ha ⊢
    | ok v =>
      rw [hf] at ha
      cases hg : g a with
      | error y => rw [hg] at ha; cases v <;> simp [bvalR] at ha ⊢
      | ok v' =>
        rw [hg] at ha
        cases v with
        | b b =>
          cases v' with
          | b b' =>
            simp only [bvalR, Option.some.injEq] at ha
            subst ha
            cases b with
            | true => rfl
            | false => exact existsLoop_bval f g h as
          | n q => simp [bvalR] at ha
          | o s => simp [bvalR] at ha
        | n q => cases v' <;> simp [bvalR] at ha ⊢
        | o s => cases v' <;> simp [bvalR] at ha ⊢

theorem forallLoop_bval (f g : VEnv → Except EvalErr Val) (h : ∀ a, bvalR (f a) = bvalR (g a)) : ∀ l : List VEnv,
    bvalR (forallLoop f l) = bvalR (forallLoop g l)
  | [] => rfl
  | a :: as => by
    have ha := h a
    unfold forallLoop
    cases hf : f a with
    | error x =>
      rw [hf] at ha
      cases hg : g a with
      | error y => rfl
      | ok v => rw [hg] at ha; cases v <;> simp [bvalR] at ha ⊢
    | ok v =>
      rw [hf] at ha
      cases hg : g a with
      | error y => rw [hg] at ha; cases v <;> simp [bvalR] at ha ⊢
      | ok v' =>
        rw [hg] at ha
        cases v with
        | b b =>
          cases v' with
          | b b' =>
            simp only [bvalR, Option.some.injEq] at ha
            subst ha
            cases b with
            | false => rfl
            | true => exact forallLoop_bval f g h as
          | n q => simp [bvalR] at ha
          | o s => simp [bvalR] at ha
        | n q => cases v' <;> simp [bvalR] at ha ⊢
        | o s => cases v' <;> simp [bvalR] at ha ⊢

theorem GdRel.quant (q : Quant) (vs : List Var) {b b' : Expr} (h : GdRel b b') : GdRel (.quant q vs b) (.quant q vs b') where
  wf := by simpa [boolWF] using h.wf
  wf' := by simpa [boolWF] using h.wf'
  fv := by
    intro v
    simp only [freeVars, List.mem_filter]
    rw [h.fv v]
  eq := by
    intro σs c ρ w
    rw [instAll_quant, instAll_quant]
    unfold bval
    cases q with
    | ex =>
      simp only [eval]
      exact existsLoop_bval _ _ (fun a => h.eq _ c (a ++ ρ) w) _
    | all =>
      simp only [eval]
      exact forallLoop_bval _ _ (fun a => h.eq _ c (a ++ ρ) w) _

/-! ### comparisons, arithmetic -/

theorem GdRel.cmp (op : Op) (hop : op = .le ∨ op = .lt ∨ op = .eq) {e1 e2 a1 a2 : Expr} (h1 : FRel e1 a1) (h2 : FRel e2 a2) :
    GdRel (.app op [e1, e2]) (.app op [a1, a2]) where
  wf := by rcases hop with rfl | rfl | rfl <;> rfl
  wf' := by rcases hop with rfl | rfl | rfl <;> rfl
  fv := SameFV.app _ _ (show All2 SameFV [e1, e2] [a1, a2] from ⟨h1.fv, h2.fv, trivial⟩)
  eq := (EqW.app op (show All2 EqW [e1, e2] [a1, a2] from ⟨h1.eq, h2.eq, trivial⟩)).eqB

theorem FRel.app (op : Op) {es as : List Expr} (h : All2 FRel es as) : FRel (.app op es) (.app op as) where
  fv := SameFV.app _ _ (by
    induction es generalizing as with
    | nil => cases as with
      | nil => trivial
      | cons _ _ => exact h.elim
    | cons e es ih => cases as with
      | nil => exact h.elim
      | cons a as => exact ⟨h.1.fv, ih h.2⟩)
  eq := EqW.app op (by
    induction es generalizing as with
    | nil => cases as with
      | nil => trivial
      | cons _ _ => exact h.elim
    | cons e es ih => cases as with
      | nil => exact h.elim
      | cons a as => exact ⟨h.1.eq, ih h.2⟩)

end UPVerif.FromPddl
