import UPVerif.Lemmas.CompileGroundSim
import UPVerif.Lemmas.FreshLemmas
/-!
Grounder (C06 / C07), part 7: the names of the ground actions.

The loop of `Grounder._compile` names its actions exactly as `Fresh.groundFlat` (Core/Fresh.lean, the naming discipline
property C08 proves correct: `Lemmas/FreshLemmas.lean: groundFlat_spec`) does on the instances it visits; hence the
ground actions have pairwise distinct names, and a name they share with the original problem is the kept name of a
parameterless action — so identifying the actions of the ground problem by position loses nothing.
-/
namespace UPVerif.Compile.Ground
open UPVerif UPVerif.Compile UPVerif.Expr UPVerif.Sim UPVerif.Fresh

/-- did `create_action_with_given_subs` accept the instance -/
def survives (simp : Expr → Expr) (P : Problem) (a : Action) (args : List String) : Bool :=
  match Sim.ground (groundWorld simp P) a args with
  | .ok (some _) => true
  | _ => false

/-- the naming request of one visited instance, as `Fresh.groundFlat` sees it -/
def reqOf (simp : Expr → Expr) (P : Problem) (x : Nat × Action × List String) : String × Inst :=
  (x.2.1.name, ⟨survives simp P x.2.1 x.2.2, x.2.2⟩)

theorem groundAction_name {simp : Expr → Expr} {P : Problem} {used : List String} {a : Action} {args : List String}
    {ga : Action} (h : groundAction simp P used a args = .ok (some ga)) :
    ga.name = instName (problemNames P) used a.name ⟨true, args⟩ := by
  unfold groundAction at h
  split at h
  · cases h
  · cases h
  · simp only [Except.ok.injEq, Option.some.injEq] at h
    subst h; rfl

theorem instName_survived (N used : List String) (a : String) (b : Bool) (args : List String) :
    instName N used a ⟨b, args⟩ = instName N used a ⟨true, args⟩ := rfl

/-- the names the loop gives are the names of `Fresh.groundFlat` -/
theorem groundLoop_names {simp : Expr → Expr} {P : Problem} :
    ∀ (l : List (Nat × Action × List String)) (used : List String) (out : List (Action × Nat × List String)),
    groundLoop simp P l used = .ok out →
    out.map (fun x => x.1.name) = (groundFlat (problemNames P) used (l.map (reqOf simp P))).map (·.1)
  | [], used, out, h => by
    simp only [groundLoop, Except.ok.injEq] at h
    subst h; rfl
  | (i0, a0, args0) :: rest, used, out, h => by
    unfold groundLoop at h
    cases hga : groundAction simp P used a0 args0 with
    | error x => rw [hga] at h; cases h
    | ok o =>
      rw [hga] at h
      cases o with
      | none =>
        dsimp only at h
        have hs : survives simp P a0 args0 = false := by
          unfold survives
          cases hg : Sim.ground (groundWorld simp P) a0 args0 with
          | error x => rfl
          | ok o' =>
            cases o' with
            | none => rfl
            | some g =>
              obtain ⟨ga, hga', _⟩ := groundAction_of_ground used hg
              rw [hga'] at hga; cases hga
        rw [groundLoop_names rest used out h]
        simp only [List.map_cons, reqOf, groundFlat, hs, Bool.false_eq_true, if_false]
      | some ga =>
        dsimp only at h
        cases hl : groundLoop simp P rest (ga.name :: used) with
        | error x => rw [hl] at h; cases h
        | ok out' =>
          rw [hl] at h
          simp only [Except.ok.injEq] at h
          subst h
          obtain ⟨g0, hg0, _⟩ := groundAction_ok hga
          have hs : survives simp P a0 args0 = true := by unfold survives; rw [hg0]
          have hn := groundAction_name hga
          simp only [List.map_cons, reqOf, groundFlat, hs, if_true]
          rw [instName_survived, ← hn, groundLoop_names rest (ga.name :: used) out' hl]

theorem keptNames_append (l m : List (String × Inst)) : keptNames (l ++ m) = keptNames l ++ keptNames m := by
  simp [keptNames]

/-- the requests of one action that keep its name: the single instance of a parameterless action -/
theorem keptNames_action (simp : Expr → Expr) (P : Problem) (prune : Bool) (i : Nat) (a : Action) :
    keptNames (((possibleParameters P prune a).map (fun args => (i, a, args))).map (reqOf simp P)) =
      if a.params.isEmpty then [a.name] else [] := by
  by_cases he : a.params.isEmpty = true
  · simp only [he, if_true]
    have : possibleParameters P prune a = [[]] := by unfold possibleParameters; rw [he]; rfl
    rw [this]
    simp [keptNames, reqOf]
  · have he' : a.params.isEmpty = false := by simpa using he
    simp only [he', Bool.false_eq_true, if_false]
    unfold keptNames
    have : List.filter (fun p => p.2.args.isEmpty)
        (((possibleParameters P prune a).map (fun args => (i, a, args))).map (reqOf simp P)) = [] := by
      rw [List.filter_eq_nil_iff]
      intro x hx
      obtain ⟨y, hy, rfl⟩ := List.mem_map.1 hx
      obtain ⟨args, hargs, rfl⟩ := List.mem_map.1 hy
      have hlen := length_of_mem_cartesian (possibleParameters_subset P prune a hargs)
      simp only [List.length_map] at hlen
      have hpos : a.params ≠ [] := by intro h; rw [h] at he'; cases he'
      have : args ≠ [] := by
        intro h
        rw [h] at hlen
        exact hpos (List.length_eq_zero_iff.1 hlen.symm)
      simp [reqOf, this]
    rw [this]; rfl

theorem keptNames_instances (simp : Expr → Expr) (P : Problem) (prune : Bool) : ∀ (ias : List (Nat × Action)),
    keptNames ((ias.flatMap (fun ia => (possibleParameters P prune ia.2).map (fun args => (ia.1, ia.2, args)))).map
      (reqOf simp P)) = (ias.filter (fun ia => ia.2.params.isEmpty)).map (·.2.name)
  | [] => rfl
  | (i, a) :: ias => by
    rw [List.flatMap_cons, List.map_append, keptNames_append, keptNames_action, keptNames_instances simp P prune ias]
    by_cases he : a.params.isEmpty = true
    · simp [he]
    · have he' : a.params.isEmpty = false := by simpa using he
      simp [he']

/-- THE GROUND ACTIONS HAVE PAIRWISE DISTINCT NAMES, none of which is a name of the original problem except the kept
    names of parameterless actions (hypothesis: the names of the original problem are pairwise distinct) -/
theorem ground_names_nodup {simp : Expr → Expr} {prune : Bool} {P : Problem} {c : GroundCompiled}
    (h : grounderCompile simp prune P = some c) (hN : (problemNames P).Nodup) :
    (c.prob.actions.map (·.name)).Nodup ∧
    ∀ n ∈ c.prob.actions.map (·.name), n ∈ problemNames P →
      n ∈ (P.actions.filter (fun a => a.params.isEmpty)).map (·.name) := by
  obtain ⟨out, ho, hp, _⟩ := grounderCompile_unpack h
  have hnames : c.prob.actions.map (·.name) =
      (groundFlat (problemNames P) [] ((groundInstances P prune).map (reqOf simp P))).map (·.1) := by
    rw [hp]
    simp only [List.map_map]
    exact groundLoop_names _ _ _ ho
  have hk : keptNames ((groundInstances P prune).map (reqOf simp P)) =
      (P.actions.filter (fun a => a.params.isEmpty)).map (·.name) := by
    unfold groundInstances
    rw [keptNames_instances]
    have hz : ((List.range P.actions.length).zip P.actions).map Prod.snd = P.actions :=
      List.map_snd_zip (by simp)
    have : (((List.range P.actions.length).zip P.actions).filter (fun ia => ia.2.params.isEmpty)).map (·.2.name) =
        ((((List.range P.actions.length).zip P.actions).map Prod.snd).filter (fun a => a.params.isEmpty)).map (·.name) := by
      rw [List.filter_map, List.map_map]; rfl
    rw [this, hz]
  have hsub : ((P.actions.filter (fun a => a.params.isEmpty)).map (·.name)).Sublist (problemNames P) := by
    unfold problemNames
    rw [List.append_assoc, List.append_assoc]
    exact (List.Sublist.map _ List.filter_sublist).trans (List.sublist_append_left _ _)
  have hspec := groundFlat_spec (problemNames P) ((groundInstances P prune).map (reqOf simp P)) []
    (by rw [hk]; exact hsub.nodup hN)
    (by
      intro n hn
      rw [hk] at hn
      exact ⟨hsub.subset hn, by simp⟩)
  rw [hnames]
  refine ⟨hspec.1, ?_⟩
  intro n hn hN'
  rw [← hk]
  exact (hspec.2 n hn).2 hN'

end UPVerif.Compile.Ground
