import UPVerif.Core.ExecEnv
/-
What property C35 says about a contingent problem, written declaratively (no clone, no dict, no loop).
Read it in three minutes:

* the DECLARED initial value of a ground fluent is its explicit initial value if there is one, else
  the per-fluent default given when the fluent was added, else the per-type default of the fluent's
  type, else nothing;
* a ground fluent is HIDDEN when an initial constraint names it, positively or negated;
* a member of a constraint HOLDS in a state when the simulator's own evaluator (`Core/Eval.lean`)
  evaluates it — a fluent expression or its negation — to TRUE in that state;
* the REFERENCE run of an action history is the plain sequential simulator (`Core/Sim.lean`, property
  C01) applied step by step, a refused step leaving the state where it was.
-/
namespace UPVerif.Spec
open UPVerif UPVerif.Sim UPVerif.ExecEnv

/-- the explicit initial value of a ground fluent -/
def explicitValue (init : List (Expr × Expr)) (k : GKey) : Option Val :=
  (init.find? (fun fv => keyOf? fv.1 == some k)).bind (fun fv => constVal? fv.2)

/-- explicit ▸ per-fluent default ▸ per-type default -/
def declaredValue (C : CProblem) (k : GKey) : Option Val :=
  match explicitValue C.base.init k with
  | some v => some v
  | none =>
    (C.base.fluents.find? (fun d => d.ref == k.1)).bind (fun d =>
      match d.default with
      | some e => constVal? e
      | none => (C.typeDefaults.lookup d.ref.ty).bind constVal?)

/-- named by an initial constraint, positively or negated -/
def IsHidden (C : CProblem) (k : GKey) : Prop := ∃ x ∈ C.hidden, keyOf? (atomOf x) = some k

/-- a constraint member (a literal) is true in the environment's current state -/
def holdsIn (E : Env) (x : Expr) : Bool := evalBool (ctx E.W E.st) x == .ok true

/-- the plain simulator replaying a history: unknown and refused actions are skipped -/
def simRun (W : World) : SimState → List (String × List String) → SimState
  | s, [] => s
  | s, (n, args) :: rest =>
    match W.P.action? n with
    | none => simRun W s rest
    | some a =>
      match Sim.apply W s a args with
      | .ok (some s') => simRun W s' rest
      | _ => simRun W s rest

end UPVerif.Spec
