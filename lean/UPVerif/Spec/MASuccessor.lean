import UPVerif.Core.Den
import UPVerif.Core.Problem
import UPVerif.Core.MAProblem
import UPVerif.Spec.Successor
/-
REFERENCE SEMANTICS of one ground action of one agent of a multi-agent problem (the library has no
multi-agent simulator; this is the single-agent documented semantics of `Spec/Successor.lean` over
the agent-indexed fluent name space).  Read it in five minutes:

* a GLOBAL state gives a value to ground fluents of ONE name space: an environment fluent `e` is the
  key `e`, the fluent `f` of agent `ag` is the key `ag.f` (`MA.qual`) — what `Dot(ag, f)` denotes;
* agent `ag` looks at the global state through its VIEW: a bare fluent application `f(args)` is the
  agent's own `ag.f(args)` when the agent declares `f`, and is read as written otherwise (an
  environment fluent, or another agent's fluent written `other.f` = `Dot(other, f)`); `View.key`;
* expressions are evaluated with the strict reference denotation `den` (`Core/Den.lean`) in the
  PRE-state: a fluent without value makes the expression undefined, an undefined or non-Boolean
  condition is not satisfied;
* the fired effects, their consistency and the successor map are those of the single-agent
  specification (`Spec.Cons`, `Spec.succGet`): per ground fluent, all assigned values equal, no
  assignment together with an increase/decrease, increases and decreases accumulate, a Boolean
  assigned both values ends true, untouched fluents keep their value;
* the action is applicable iff every precondition is TRUE, no evaluation needed by an effect is
  undefined, and the fired effects are consistent.  (Multi-agent problems have no state invariants;
  bounded types are not checked: the removers never touch values.)

`successor` takes ground, forall-free effects (`forall_ = []`); a FORALL effect stands for its instances
over ALL objects of its variables' types, as in the single-agent specification: `successorIn O` expands
every effect with `Sim.expandEffect O` (the model of `Effect.expand_effect`) first.
-/
namespace UPVerif.MASpec
open UPVerif UPVerif.Sim UPVerif.Spec UPVerif.MA

/-- a global state: values of the ground fluents of the agent-indexed name space -/
abbrev GState := GKey → Option Val

/-- who is looking: the agent and the fluents it declares -/
structure View where
  agent : String
  own : List FluentRef

/-- resolution of a ground fluent as written in the agent's action to the global name space -/
def View.key (V : View) (k : GKey) : GKey :=
  if V.own.contains k.1 then (qual V.agent k.1, k.2) else k

/-- the interpretation agent `V.agent` evaluates its expressions in (ground: no parameters, no
    quantified variables; interpreted functions are outside the fragment) -/
def View.interp (V : View) (g : GState) : Interp :=
  { fl := fun f vs => g (V.key (f, vs)), fn := fun _ _ => none, par := fun _ => none, dom := fun _ => [] }

/-- value of a ground expression for agent `V` in `g` -/
def value (V : View) (g : GState) (e : Expr) : Option Val := den (V.interp g) [] e

/-- a condition holds iff its value is TRUE -/
def holds (V : View) (g : GState) (e : Expr) : Bool := value V g e == some (.b true)

/-- the ground fluent an effect writes, in the global name space (`none` = an argument of the target
    is undefined, or the effect is outside the ground fragment) -/
def target (V : View) (g : GState) (e : Effect) : Option GKey :=
  if e.forall_ ≠ [] then none else
  match e.fluent with
  | .app (.fluent f) args => (denList (V.interp g) [] args).map (fun vs => V.key (f, vs))
  | _ => none

def targetIsBool (e : Effect) : Bool :=
  match e.fluent with
  | .app (.fluent f) _ => f.ty == .bool
  | _ => false

/-- what the effect does to `k` when it fires: its value is evaluated in the pre-state and must have
    the sort the kind of effect needs (`none` = undefined or ill-sorted) -/
def firing (V : View) (g : GState) (e : Effect) (k : GKey) : Option Fired :=
  match value V g e.value with
  | none => none
  | some v =>
    match e.kind with
    | .assign =>
      if targetIsBool e then
        match v with
        | .b b => some (.setB k b)
        | _ => none
      else some (.setV k v)
    | .increase => (match v with
      | .n d => some (.delta k d)
      | _ => none)
    | .decrease => (match v with
      | .n d => some (.delta k (-d))
      | _ => none)

/-- one effect in the pre-state: `none` = something it needs is undefined or ill-sorted,
    `some none` = its condition is false, `some (some f)` = it fires as `f` (keys are global) -/
def evalEff (V : View) (g : GState) (e : Effect) : Option (Option Fired) :=
  match target V g e with
  | none => none
  | some k =>
    match (if e.isConditional then value V g e.cond else some (.b true)) with
    | some (.b false) => some none
    | some (.b true) => (firing V g e k).map some
    | _ => none

/-- all effects evaluated in the pre-state (a list used as a multiset) -/
def fired (V : View) (g : GState) : List Effect → Option (List Fired)
  | [] => some []
  | e :: es =>
    match evalEff V g e, fired V g es with
    | some none, some F => some F
    | some (some f), some F => some (f :: F)
    | _, _ => none

/-- successor of the global state `g` when agent `V` executes an action with preconditions `pre`
    and effects `E`; `none` = not applicable -/
def successor (V : View) (g : GState) (pre : List Expr) (E : List Effect) : Option GState :=
  if pre.all (holds V g) then
    match fired V g E with
    | none => none
    | some F => if Cons g F then some (succGet g F) else none
  else none

/-- successor for actions with forall effects: every effect is replaced by its instances over the objects
    of `O` (an effect without quantified variables is its own single instance) -/
def successorIn (O : Problem) (V : View) (g : GState) (pre : List Expr) (E : List Effect) : Option GState :=
  successor V g pre (E.flatMap (Sim.expandEffect O))

/-- the shared goals are read in the global name space (no agent owns anything there) -/
def goalView : View := { agent := "", own := [] }

def goalHolds (g : GState) (e : Expr) : Bool := holds goalView g e

/-- the view of an agent of a problem -/
def viewOf (a : Agent) : View := { agent := a.name, own := a.fluents.map (·.ref) }

end UPVerif.MASpec
