import UPVerif.Core.TT
import UPVerif.Spec.Successor
/-
The REFERENCE semantics of a time-triggered plan on a temporal problem, written declaratively
(no event queue, no accumulators, no sampling of a trace).  Read it in ten minutes:

* EVENTS (`items`): every timed effect of the problem at its time; for every instantaneous action
  instance of the plan, the effects of its grounding (`Sim.ground`, the grounder's documented
  contract, as in `Spec/Successor.lean`) at its start; for every durative action instance, the
  effects of each timing at `start + delay` / `start + duration + delay`.  An instantaneous instance
  that does not ground makes the plan invalid.
* CONDITIONS (`items`): every timed goal over its interval; every state invariant — the problem's
  `Always` bodies and the bounds of every ground instance of a bounded fluent (`Sim.invariants`) —
  from time `0` on, for ever; the preconditions of an instantaneous instance at its start; for a
  durative instance the duration constraint `lower (<|≤) duration (<|≤) upper` at its start and each
  condition over its instantiated interval, every interval with its own openness at both ends.
* INSTANTS: let `t₀ < t₁ < …` be the distinct event times (`happenings`).  All events of one instant
  are applied TOGETHER to the state `σᵢ` in force before it (`instantSucc`): every effect instance —
  forall effects stand for their instances over all objects — has its target, condition and value
  evaluated in `σᵢ` (an undefined read makes the plan invalid); the fired effects must be consistent
  exactly as in `Spec/Successor.lean` (`Cons`: one value per non-Boolean fluent, no assignment
  together with an increase/decrease, increases only of fluents with a numeric value), and no ground
  fluent may be assigned by two DIFFERENT action instances (`Exclusive`; all timed effects count as
  one instance); the new values are those of `Spec/Successor.lean` (`succGet`: a Boolean assigned both
  values ends true, increases and decreases add up).
* The state IN FORCE AT a time point `p` (`stateAt`) is the state after the last instant strictly
  before `p`: a condition at an instant reads the state before the effects of that instant.
* The plan is VALID iff every instant has a successor, every condition `(φ, I)` evaluates to TRUE in
  the state in force at EVERY time point of `I`, and the goals evaluate to TRUE in the last state.
  (An evaluation that is undefined or fails is not TRUE.)
-/
namespace UPVerif.Spec.Temporal
open UPVerif UPVerif.Expr UPVerif.Sim UPVerif.TT UPVerif.Spec

/-- a state as a map -/
abbrev SMap := GKey → Option Val

def ctxOf (W : World) (σ : SMap) : EvalCtx := { get := σ, objs := W.P.objectsOf, fn := W.fn }

/-! ### one instant -/

/-- one effect instance evaluated in the state before the instant; `.ok none` = its condition is
    false -/
def evalEffS (c : EvalCtx) (σ : Subst) (e : Effect) : Except EvalErr (Option Fired) :=
  match substE σ e.fluent with
  | .app (.fluent f) args =>
    match evalArgs c args with
    | .error x => .error x
    | .ok vs =>
      match evalBool c (substE σ e.cond) with
      | .error x => .error x
      | .ok false => .ok none
      | .ok true =>
        match eval c [] (substE σ e.value) with
        | .error x => .error x
        | .ok v =>
          match e.kind with
          | .assign =>
            if f.ty == .bool then
              match v with
              | .b b => .ok (some (.setB (f, vs) b))
              | _ => .error .other
            else .ok (some (.setV (f, vs) v))
          | .increase => (match v with
            | .n d => .ok (some (.delta (f, vs) d))
            | _ => .error .other)
          | .decrease => (match v with
            | .n d => .ok (some (.delta (f, vs) (-d)))
            | _ => .error .other)
  | _ => .error .other

/-- a fired effect together with the action instance it belongs to (`none` = a timed effect) -/
abbrev TFired := Option Nat × Fired

/-- the fired effects among the (expanded) effects of one event -/
def firedInsts (c : EvalCtx) (σ : Subst) (tag : Option Nat) : List Effect → Option (List TFired)
  | [] => some []
  | e :: es =>
    match evalEffS c σ e, firedInsts c σ tag es with
    | .ok none, some F => some F
    | .ok (some f), some F => some ((tag, f) :: F)
    | _, _ => none

/-- the fired effects of all the events of one instant -/
def firedGroups (P : Problem) (c : EvalCtx) : List Group → Option (List TFired)
  | [] => some []
  | g :: gs =>
    match firedInsts c g.σ g.tag (g.effs.flatMap (expandEffect P)), firedGroups P c gs with
    | some F, some G => some (F ++ G)
    | _, _ => none

def isAssign : Fired → Bool
  | .setB _ _ => true
  | .setV _ _ => true
  | .delta _ _ => false

/-- no ground fluent is assigned by two different action instances -/
def Exclusive (TF : List TFired) : Prop :=
  ∀ x ∈ TF, ∀ y ∈ TF, isAssign x.2 = true → isAssign y.2 = true → x.2.key = y.2.key → x.1 = y.1

instance (TF : List TFired) : Decidable (Exclusive TF) := by unfold Exclusive; infer_instance

/-- the state after an instant at which the events `gs` happen together; `none` = there is none -/
def instantSucc (W : World) (σ : SMap) (gs : List Group) : Option SMap :=
  match firedGroups W.P (ctxOf W σ) gs with
  | none => none
  | some TF =>
    if Cons σ (TF.map (·.2)) ∧ Exclusive TF then some (succGet σ (TF.map (·.2))) else none

/-! ### the time line -/

def insertTime (t : Rat) : List Rat → List Rat
  | [] => [t]
  | x :: xs => if t < x then t :: x :: xs else if t = x then x :: xs else x :: insertTime t xs

/-- the distinct event times in ascending order -/
def happenings (E : List Sched) : List Rat := E.foldr (fun ev acc => insertTime ev.time acc) []

/-- the events of instant `t` -/
def eventsAt (E : List Sched) (t : Rat) : List Group := (E.filter (fun x => x.time = t)).map (·.group)

/-- the state after each of the given instants, starting from `σ` -/
def timeline (W : World) (E : List Sched) : SMap → List Rat → Option (List (Rat × SMap))
  | _, [] => some []
  | σ, t :: ts =>
    match instantSucc W σ (eventsAt E t) with
    | none => none
    | some σ' => (timeline W E σ' ts).map (fun r => (t, σ') :: r)

/-- the state in force at time point `p`: after the last instant strictly before `p` -/
def stateAt (σ0 : SMap) : List (Rat × SMap) → Rat → SMap
  | [], _ => σ0
  | (t, σ) :: r, p => if t < p then stateAt σ r p else σ0

def lastState (σ0 : SMap) : List (Rat × SMap) → SMap
  | [] => σ0
  | (_, σ) :: r => lastState σ r

/-! ### conditions -/

/-- membership of a time point in the interval of a condition -/
def InInterval (s : Rat) (e : Option Rat) (lopen ropen : Bool) (p : Rat) : Prop :=
  (if lopen then s < p else s ≤ p) ∧
  (match e with
    | none => True
    | some e => if ropen then p < e else p ≤ e)

/-- a condition / goal holds in a state iff it evaluates to TRUE there -/
def HoldsIn (W : World) (σ : SMap) (e : Expr) : Prop := evalBool (ctxOf W σ) e = .ok true

/-! ### events and conditions of a plan -/

/-- events and conditions the steps contribute (in the given order); `none` = some instantaneous
    instance does not ground, or a timing cannot be instantiated -/
def stepsItems (W : World) : List (Step × Nat) → Option (List Sched × List DCond)
  | [] => some ([], [])
  | (st, idx) :: r =>
    match stepItems W st idx, stepsItems W r with
    | .ok (some (ev, cs)), some (E, C) => some (ev ++ E, cs ++ C)
    | _, _ => none

/-- all the events and conditions of the action instances `acts` (each with its position in the plan)
    and of the problem -/
def itemsOf (W : World) (T : TProblem) (acts : List (Step × Nat)) : Option (List Sched × List DCond) :=
  match timedSched T.timedEffs, timedGoalConds T.timedGoals, stepsItems W acts with
  | .ok te, .ok tg, some (E, C) => some (te ++ E, tg ++ invariantConds W ++ C)
  | _, _, _ => none

/-- all the events and conditions of the plan -/
def items (W : World) (T : TProblem) (π : List Step) : Option (List Sched × List DCond) :=
  itemsOf W T (indexed π)

/-- validity of the plan given its events `E` and conditions `C` and the initial state -/
def ValidFor (W : World) (E : List Sched) (C : List DCond) (σ0 : SMap) : Prop :=
  ∃ tl, timeline W E σ0 (happenings E) = some tl ∧
    (∀ dc ∈ C, ∀ p, InInterval dc.start dc.end dc.lopen dc.ropen p → HoldsIn W (stateAt σ0 tl p) dc.cond) ∧
    (∀ g ∈ W.P.goals, HoldsIn W (lastState σ0 tl) g)

/-- validity for action instances given in any order -/
def ValidOf (W : World) (T : TProblem) (acts : List (Step × Nat)) : Prop :=
  ∃ E C s0, itemsOf W T acts = some (E, C) ∧ initialState? W.P = some s0 ∧ ValidFor W E C (s0.get W.P)

/-- THE REFERENCE SEMANTICS: the time-triggered plan `π` is valid for the temporal problem -/
def Valid (W : World) (T : TProblem) (π : List Step) : Prop := ValidOf W T (indexed π)

/-! ### the domain of the semantics (decidable) -/

/-- no event of an action instance is scheduled before the start of the instance -/
def wellTimedB (W : World) (acts : List (Step × Nat)) : Bool :=
  acts.all (fun a => match stepItems W a.1 a.2 with
    | .ok (some (ev, _)) => ev.all (fun x => decide (a.1.start ≤ x.time))
    | _ => true)

/-- the interval of the condition contains a time point: `start < end`, or `start = end` with both
    ends closed -/
def properB (dc : DCond) : Bool :=
  match dc.end with
  | none => true
  | some e => decide (dc.start < e) || (decide (dc.start = e) && !dc.lopen && !dc.ropen)

/-- nothing happens before time 0 (the instant of the initial state) and every condition is over a
    non-empty interval that starts at a time >= 0 -/
def saneB : Option (List Sched × List DCond) → Bool
  | none => true
  | some (E, C) => E.all (fun ev => decide (0 ≤ ev.time)) && C.all (fun dc => decide (0 ≤ dc.start) && properB dc)

/-- the plans the semantics (and the validator) is meant for -/
def Admissible (W : World) (T : TProblem) (π : List Step) : Bool :=
  wellTimedB W (indexed π) && saneB (items W T π)

end UPVerif.Spec.Temporal
