import UPVerif.Core.KindOf
/-!
# `Uses P f` — the problem `P` syntactically uses the feature `f`

Specification side of C10.  One introduction rule per feature named in the property statement,
phrased over *positions* of the problem and *sub-expressions* (`Sub`), never over the traversal of
`_KindFactory`: "some expression in condition position contains a `not`", "some duration bound
mentions a fluent that some effect writes", …  Nothing here refers to `Prog`, `run`, `kindProg`
or any `upd*` function of `Core/KindOf.lean`; from that file only the problem SYNTAX is used, plus
`tcOf` (the bool/int/real/user class of an expression, which is what distinguishes a Boolean from
a numeric from an object assignment) and `groundSize` / `initCount` (the two numbers whose
difference *is* the definition of an undefined initial value in `InitialStateMixin`).

Reading decisions (repeated in the evidence `assumptions`):
* typing is used by the type of an object, a fluent, a fluent parameter, an action / process /
  event parameter or a forall-effect variable;
* a disjunctive condition is an `or` / `implies` node;
* a numeric fluent needs INT/REAL_FLUENTS when it is read outside durations and action costs, or is
  read in no duration and no action cost at all;
* fluent-dependent assignments are assign / increase / decrease effects whose value mentions a
  fluent: "static" when no effect of the problem writes the fluent, else non-static.
-/
namespace UPVerif.Spec
open UPVerif UPVerif.KindOf

/-- `Sub s e`: `s` is a sub-expression of `e` (reflexive; arguments of operators and fluents, bodies of
    quantifiers) -/
inductive Sub : Expr → Expr → Prop where
  | refl (e : Expr) : Sub e e
  | arg {s : Expr} {op : Op} {args : List Expr} {a : Expr} : a ∈ args → Sub s a → Sub s (.app op args)
  | body {s : Expr} {q : Quant} {vs : List Var} {b : Expr} : Sub s b → Sub s (.quant q vs b)

/-- the expression mentions the fluent `f` -/
def Mentions (e : Expr) (f : FluentRef) : Prop := ∃ args, Sub (.app (.fluent f) args) e

variable (P : KProblem)

/-- the assign / increase / decrease effects of the problem, wherever they sit -/
inductive EffectOf : Effect → Prop where
  | iaction {a : IAct} {e : Effect} : a ∈ P.iactions → e ∈ a.effs → EffectOf e
  | daction {a : DAct} {t : Timing} {e : Effect} : a ∈ P.dactions → (t, e) ∈ a.effs → EffectOf e
  | event {ev : Evt} {e : Effect} : ev ∈ P.events → e ∈ ev.effs → EffectOf e
  | timed {t : Timing} {e : Effect} : (t, e) ∈ P.timedEffects → EffectOf e

/-- the continuous effects of the problem -/
inductive CEffectOf : CEff → Prop where
  | daction {a : DAct} {i : Interval} {e : CEff} : a ∈ P.dactions → (i, e) ∈ a.ceffs → CEffectOf e
  | process {p : Proc} {e : CEff} : p ∈ P.processes → e ∈ p.effs → CEffectOf e

/-- expressions in condition position -/
inductive CondOf : Expr → Prop where
  | precondition {a : IAct} {c : Expr} : a ∈ P.iactions → c ∈ a.pre → CondOf c
  | durativeCondition {a : DAct} {i : Interval} {c : Expr} : a ∈ P.dactions → (i, c) ∈ a.conds → CondOf c
  | processPrecondition {p : Proc} {c : Expr} : p ∈ P.processes → c ∈ p.pre → CondOf c
  | eventPrecondition {ev : Evt} {c : Expr} : ev ∈ P.events → c ∈ ev.pre → CondOf c
  /-- the condition of a conditional effect (plain, forall, durative, event or timed) -/
  | effectCondition {e : Effect} : EffectOf P e → e.cond ≠ Expr.tt → CondOf e.cond
  | goal {c : Expr} : c ∈ P.goals → CondOf c
  | timedGoal {i : Interval} {c : Expr} : (i, c) ∈ P.timedGoals → CondOf c
  | trajectoryConstraint {c : Expr} : c ∈ P.traj → CondOf c
  | oversubscriptionGoal {gs : List (Expr × Rat)} {c : Expr} {w : Rat} :
      KMetric.oversub gs ∈ P.metrics → (c, w) ∈ gs → CondOf c
  | temporalOversubscriptionGoal {gs : List (Interval × Expr × Rat)} {i : Interval} {c : Expr} {w : Rat} :
      KMetric.toversub gs ∈ P.metrics → (i, c, w) ∈ gs → CondOf c

/-- types of action / process / event parameters -/
inductive ParamTy : Ty → Prop where
  | iaction {a : IAct} {n : String} {t : Ty} : a ∈ P.iactions → (n, t) ∈ a.params → ParamTy t
  | daction {a : DAct} {n : String} {t : Ty} : a ∈ P.dactions → (n, t) ∈ a.params → ParamTy t
  | process {p : Proc} {n : String} {t : Ty} : p ∈ P.processes → (n, t) ∈ p.params → ParamTy t
  | event {ev : Evt} {n : String} {t : Ty} : ev ∈ P.events → (n, t) ∈ ev.params → ParamTy t

/-- positions where a type is attached to something -/
inductive TypeUse : Ty → Prop where
  | object {o n : String} : (o, n) ∈ P.objects → TypeUse (.user n)
  | fluent {d : FluentDecl} : d ∈ P.fluents → TypeUse d.ref.ty
  | fluentParameter {d : FluentDecl} {t : Ty} : d ∈ P.fluents → t ∈ d.ref.sig → TypeUse t
  | parameter {t : Ty} : ParamTy P t → TypeUse t
  | forallVariable {e : Effect} {v : Var} : EffectOf P e → v ∈ e.forall_ → TypeUse v.ty

/-- some effect of the problem (discrete, continuous or simulated) writes the fluent -/
inductive Written : FluentRef → Prop where
  | effect {e : Effect} {f : FluentRef} {args : List Expr} :
      EffectOf P e → e.fluent = .app (.fluent f) args → Written f
  | continuousEffect {e : CEff} {f : FluentRef} {args : List Expr} :
      CEffectOf P e → e.fluent = .app (.fluent f) args → Written f
  | simulated {a : IAct} {fs : List Expr} {f : FluentRef} {args : List Expr} :
      a ∈ P.iactions → a.sim = some fs → .app (.fluent f) args ∈ fs → Written f
  | durativeSimulated {a : DAct} {t : Timing} {fs : List Expr} {f : FluentRef} {args : List Expr} :
      a ∈ P.dactions → (t, fs) ∈ a.sims → .app (.fluent f) args ∈ fs → Written f

def Declared (f : FluentRef) : Prop := ∃ d, d ∈ P.fluents ∧ d.ref = f

/-- a declared fluent that nothing writes -/
def Static (f : FluentRef) : Prop := Declared P f ∧ ¬ Written P f

/-- the fluent is read somewhere else than in a duration or an action cost -/
inductive ReadOutside : FluentRef → Prop where
  | condition {c : Expr} {f : FluentRef} : CondOf P c → Mentions c f → ReadOutside f
  | effectFluent {e : Effect} {f : FluentRef} : EffectOf P e → Mentions e.fluent f → ReadOutside f
  | effectValue {e : Effect} {f : FluentRef} : EffectOf P e → Mentions e.value f → ReadOutside f
  | continuousEffectFluent {e : CEff} {f : FluentRef} : CEffectOf P e → Mentions e.fluent f → ReadOutside f
  | continuousEffectValue {e : CEff} {f : FluentRef} : CEffectOf P e → Mentions e.value f → ReadOutside f
  | minimizeFinal {e : Expr} {f : FluentRef} : KMetric.minFinal e ∈ P.metrics → Mentions e f → ReadOutside f
  | maximizeFinal {e : Expr} {f : FluentRef} : KMetric.maxFinal e ∈ P.metrics → Mentions e f → ReadOutside f

/-- the fluent occurs in a duration bound or in an action cost -/
inductive InDurationOrCost : FluentRef → Prop where
  | durationLower {a : DAct} {f : FluentRef} : a ∈ P.dactions → Mentions a.durLo f → InDurationOrCost f
  | durationUpper {a : DAct} {f : FluentRef} : a ∈ P.dactions → Mentions a.durHi f → InDurationOrCost f
  | cost {cs : List (String × Expr)} {d : Option Expr} {n : String} {c : Expr} {f : FluentRef} :
      KMetric.minActionCosts cs d ∈ P.metrics → (n, c) ∈ cs → Mentions c f → InDurationOrCost f
  | defaultCost {cs : List (String × Expr)} {c : Expr} {f : FluentRef} :
      KMetric.minActionCosts cs (some c) ∈ P.metrics → Mentions c f → InDurationOrCost f

/-- a numeric fluent that INT/REAL_FLUENTS must announce -/
def NeedsFluentType (f : FluentRef) : Prop := ReadOutside P f ∨ ¬ InDurationOrCost P f

/-- the duration of some durative action mentions `f` -/
def InDuration (f : FluentRef) : Prop :=
  ∃ a, a ∈ P.dactions ∧ (Mentions a.durLo f ∨ Mentions a.durHi f)

/-- `e` assigns (or adds / subtracts) a number -/
def NumericAssignment (e : Effect) : Prop :=
  e.kind = .increase ∨ e.kind = .decrease ∨ (e.kind = .assign ∧ (tcOf e.value = .int ∨ tcOf e.value = .real))

/-- the features of the property statement, each with the syntactic situation that uses it -/
inductive Uses : Feature → Prop where
  -- typing
  | flatTyping {n : String} : TypeUse P (.user n) → Uses "FLAT_TYPING"
  | hierarchicalTyping {n : String} : TypeUse P (.user n) → P.types.father n ≠ none → Uses "HIERARCHICAL_TYPING"
  -- fluent types
  | intFluents {d : FluentDecl} {lb ub : Option Int} :
      d ∈ P.fluents → d.ref.ty = .int lb ub → NeedsFluentType P d.ref → Uses "INT_FLUENTS"
  | realFluents {d : FluentDecl} {lb ub : Option Rat} :
      d ∈ P.fluents → d.ref.ty = .real lb ub → NeedsFluentType P d.ref → Uses "REAL_FLUENTS"
  | objectFluents {d : FluentDecl} {n : String} : d ∈ P.fluents → d.ref.ty = .user n → Uses "OBJECT_FLUENTS"
  -- parameter types
  | boolFluentParameters {d : FluentDecl} : d ∈ P.fluents → Ty.bool ∈ d.ref.sig → Uses "BOOL_FLUENT_PARAMETERS"
  | boundedIntFluentParameters {d : FluentDecl} {lb ub : Option Int} :
      d ∈ P.fluents → Ty.int lb ub ∈ d.ref.sig → Uses "BOUNDED_INT_FLUENT_PARAMETERS"
  | boolActionParameters : ParamTy P .bool → Uses "BOOL_ACTION_PARAMETERS"
  | realActionParameters {lb ub : Option Rat} : ParamTy P (.real lb ub) → Uses "REAL_ACTION_PARAMETERS"
  | boundedIntActionParameters {lb ub : Int} : ParamTy P (.int (some lb) (some ub)) → Uses "BOUNDED_INT_ACTION_PARAMETERS"
  | unboundedIntActionParameters {lb ub : Option Int} :
      ParamTy P (.int lb ub) → lb = none ∨ ub = none → Uses "UNBOUNDED_INT_ACTION_PARAMETERS"
  -- numeric bounds
  | boundedIntType {d : FluentDecl} {lb ub : Option Int} :
      d ∈ P.fluents → d.ref.ty = .int lb ub → lb ≠ none ∨ ub ≠ none → Uses "BOUNDED_TYPES"
  | boundedRealType {d : FluentDecl} {lb ub : Option Rat} :
      d ∈ P.fluents → d.ref.ty = .real lb ub → lb ≠ none ∨ ub ≠ none → Uses "BOUNDED_TYPES"
  -- conditions
  | negativeConditions {c : Expr} {args : List Expr} : CondOf P c → Sub (.app .not args) c → Uses "NEGATIVE_CONDITIONS"
  | disjunctiveConditionsOr {c : Expr} {args : List Expr} : CondOf P c → Sub (.app .or args) c → Uses "DISJUNCTIVE_CONDITIONS"
  | disjunctiveConditionsImplies {c : Expr} {args : List Expr} :
      CondOf P c → Sub (.app .implies args) c → Uses "DISJUNCTIVE_CONDITIONS"
  | equalities {c : Expr} {args : List Expr} : CondOf P c → Sub (.app .eq args) c → Uses "EQUALITIES"
  | existentialConditions {c : Expr} {vs : List Var} {b : Expr} :
      CondOf P c → Sub (.quant .ex vs b) c → Uses "EXISTENTIAL_CONDITIONS"
  | universalConditions {c : Expr} {vs : List Var} {b : Expr} :
      CondOf P c → Sub (.quant .all vs b) c → Uses "UNIVERSAL_CONDITIONS"
  -- effects
  | conditionalEffects {e : Effect} : EffectOf P e → e.cond ≠ Expr.tt → Uses "CONDITIONAL_EFFECTS"
  | forallEffects {e : Effect} : EffectOf P e → e.forall_ ≠ [] → Uses "FORALL_EFFECTS"
  | increaseEffects {e : Effect} : EffectOf P e → e.kind = .increase → Uses "INCREASE_EFFECTS"
  | decreaseEffects {e : Effect} : EffectOf P e → e.kind = .decrease → Uses "DECREASE_EFFECTS"
  | increaseContinuousEffects {e : CEff} : CEffectOf P e → e.kind = .inc → Uses "INCREASE_CONTINUOUS_EFFECTS"
  | decreaseContinuousEffects {e : CEff} : CEffectOf P e → e.kind = .dec → Uses "DECREASE_CONTINUOUS_EFFECTS"
  -- fluent-dependent assignments
  | fluentsInNumericAssignments {e : Effect} {f : FluentRef} :
      EffectOf P e → NumericAssignment e → Mentions e.value f → Written P f → Uses "FLUENTS_IN_NUMERIC_ASSIGNMENTS"
  | staticFluentsInNumericAssignments {e : Effect} {f : FluentRef} :
      EffectOf P e → NumericAssignment e → Mentions e.value f → Static P f → Uses "STATIC_FLUENTS_IN_NUMERIC_ASSIGNMENTS"
  | fluentsInBooleanAssignments {e : Effect} {f : FluentRef} :
      EffectOf P e → e.kind = .assign → tcOf e.value = .bool → Mentions e.value f → Written P f →
      Uses "FLUENTS_IN_BOOLEAN_ASSIGNMENTS"
  | staticFluentsInBooleanAssignments {e : Effect} {f : FluentRef} :
      EffectOf P e → e.kind = .assign → tcOf e.value = .bool → Mentions e.value f → Static P f →
      Uses "STATIC_FLUENTS_IN_BOOLEAN_ASSIGNMENTS"
  | fluentsInObjectAssignments {e : Effect} {f : FluentRef} :
      EffectOf P e → e.kind = .assign → tcOf e.value = .user → Mentions e.value f → Written P f →
      Uses "FLUENTS_IN_OBJECT_ASSIGNMENTS"
  | staticFluentsInObjectAssignments {e : Effect} {f : FluentRef} :
      EffectOf P e → e.kind = .assign → tcOf e.value = .user → Mentions e.value f → Static P f →
      Uses "STATIC_FLUENTS_IN_OBJECT_ASSIGNMENTS"
  -- fluent-dependent durations
  | fluentsInDurations {f : FluentRef} : InDuration P f → Written P f → Uses "FLUENTS_IN_DURATIONS"
  | staticFluentsInDurations {f : FluentRef} : InDuration P f → Static P f → Uses "STATIC_FLUENTS_IN_DURATIONS"
  -- timed effects and goals
  | timedEffects : P.timedEffects ≠ [] → Uses "TIMED_EFFECTS"
  | timedGoals : P.timedGoals ≠ [] → Uses "TIMED_GOALS"
  -- state invariants and trajectory constraints
  | stateInvariants {args : List Expr} : Expr.app .always args ∈ P.traj → Uses "STATE_INVARIANTS"
  | trajectoryConstraints {c : Expr} : c ∈ P.traj → (∀ args, c ≠ .app .always args) → Uses "TRAJECTORY_CONSTRAINTS"
  -- quality metrics
  | actionsCost {cs : List (String × Expr)} {d : Option Expr} : KMetric.minActionCosts cs d ∈ P.metrics → Uses "ACTIONS_COST"
  | planLength : KMetric.minLength ∈ P.metrics → Uses "PLAN_LENGTH"
  | finalValueMin {e : Expr} : KMetric.minFinal e ∈ P.metrics → Uses "FINAL_VALUE"
  | finalValueMax {e : Expr} : KMetric.maxFinal e ∈ P.metrics → Uses "FINAL_VALUE"
  | oversubscription {gs : List (Expr × Rat)} : KMetric.oversub gs ∈ P.metrics → Uses "OVERSUBSCRIPTION"
  | makespan : KMetric.makespan ∈ P.metrics → Uses "MAKESPAN"
  | temporalOversubscription {gs : List (Interval × Expr × Rat)} :
      KMetric.toversub gs ∈ P.metrics → Uses "TEMPORAL_OVERSUBSCRIPTION"
  -- undefined initial values: a fluent without default whose explicit initial values do not cover its ground instances
  | undefinedInitialNumeric {d : FluentDecl} {g : Int} :
      d ∈ P.fluents → d.default = none → groundSize P d.ref.sig = some g → g ≠ initCount P d.ref →
      tyIsNum d.ref.ty = true → Uses "UNDEFINED_INITIAL_NUMERIC"
  | undefinedInitialSymbolic {d : FluentDecl} {g : Int} :
      d ∈ P.fluents → d.default = none → groundSize P d.ref.sig = some g → g ≠ initCount P d.ref →
      tyIsNum d.ref.ty = false → Uses "UNDEFINED_INITIAL_SYMBOLIC"

/-- the features `Uses` can demand (for the engine consequence: all of them exist at the latest version) -/
def statementFeatures : List Feature := [
  "FLAT_TYPING", "HIERARCHICAL_TYPING", "INT_FLUENTS", "REAL_FLUENTS", "OBJECT_FLUENTS", "BOOL_FLUENT_PARAMETERS",
  "BOUNDED_INT_FLUENT_PARAMETERS", "BOOL_ACTION_PARAMETERS", "REAL_ACTION_PARAMETERS", "BOUNDED_INT_ACTION_PARAMETERS",
  "UNBOUNDED_INT_ACTION_PARAMETERS", "BOUNDED_TYPES", "NEGATIVE_CONDITIONS", "DISJUNCTIVE_CONDITIONS", "EQUALITIES",
  "EXISTENTIAL_CONDITIONS", "UNIVERSAL_CONDITIONS", "CONDITIONAL_EFFECTS", "FORALL_EFFECTS", "INCREASE_EFFECTS",
  "DECREASE_EFFECTS", "INCREASE_CONTINUOUS_EFFECTS", "DECREASE_CONTINUOUS_EFFECTS", "FLUENTS_IN_NUMERIC_ASSIGNMENTS",
  "STATIC_FLUENTS_IN_NUMERIC_ASSIGNMENTS", "FLUENTS_IN_BOOLEAN_ASSIGNMENTS", "STATIC_FLUENTS_IN_BOOLEAN_ASSIGNMENTS",
  "FLUENTS_IN_OBJECT_ASSIGNMENTS", "STATIC_FLUENTS_IN_OBJECT_ASSIGNMENTS", "FLUENTS_IN_DURATIONS",
  "STATIC_FLUENTS_IN_DURATIONS", "TIMED_EFFECTS", "TIMED_GOALS", "STATE_INVARIANTS", "TRAJECTORY_CONSTRAINTS",
  "ACTIONS_COST", "PLAN_LENGTH", "FINAL_VALUE", "OVERSUBSCRIPTION", "MAKESPAN", "TEMPORAL_OVERSUBSCRIPTION",
  "UNDEFINED_INITIAL_NUMERIC", "UNDEFINED_INITIAL_SYMBOLIC"]

end UPVerif.Spec
