import UPVerif.Core.Den
import UPVerif.Core.Problem
/-
Reference semantics of the WRITES of effect instances, over the reference denotation `den` (Core/Den.lean), used
to say what the set computed by `InterpretedFunctionsRemover._find_changing_fluents` is good for
(`Props/C31Closure.lean`): the value of a fluent outside that set after ANY sequence of actions does not depend
on what the interpreted functions return.  Read it in two minutes:

* a state gives every ground fluent `f(ws)` a value or none;
* an effect instance (an effect of a lifted action, its action parameters valued by `par`, the variables of a
  forall-effect by `ρ`) fires iff its condition denotes TRUE in the PRE-state; target arguments, condition and value
  are all read in the PRE-state (strictly: anything undefined = no write); an increase / decrease adds to / subtracts
  from the value the target has when the write is applied;
* the writes of one step are applied in the order of the instance list (nothing proved here depends on that order);
* applicability (preconditions, consistency, bounds) is deliberately NOT part of this semantics: the statement is
  about every sequence of steps, applicable or not.
-/
namespace UPVerif.IFChanging
open UPVerif

/-- a state: the value of every ground fluent -/
abbrev St := FluentRef → List Val → Option Val

/-- the interpretation of the pre-state `σ` under interpreted functions `fn`, quantifier domains `dom` and action
    parameter values `par` -/
def interp (fn : FunRef → List Val → Option Val) (dom : Ty → List Val) (par : String → Option Val) (σ : St) : Interp :=
  { fl := σ, fn := fn, par := par, dom := dom }

/-- the value written by an effect of kind `kind` whose condition, target arguments and value denote `c`, `ws`, `v`;
    `old` = current value of the target -/
def written (kind : EffKind) (c : Option Val) (ws : Option (List Val)) (v : Option Val)
    (old : List Val → Option Val) : Option (List Val × Val) :=
  match c, ws, v with
  | some (.b true), some ws, some v =>
    match kind with
    | .assign => some (ws, v)
    | .increase => (match old ws, v with
      | some (.n a), .n d => some (ws, .n (a + d))
      | _, _ => none)
    | .decrease => (match old ws, v with
      | some (.n a), .n d => some (ws, .n (a - d))
      | _, _ => none)
  | _, _, _ => none

/-- the write of one effect instance: target fluent, its argument values, the new value -/
def write (ι : Interp) (ρ : VEnv) (ef : Effect) (acc : St) : Option (FluentRef × List Val × Val) :=
  match ef.fluent with
  | .app (.fluent f) args =>
    (written ef.kind (den ι ρ ef.cond) (denList ι ρ args) (den ι ρ ef.value) (acc f)).map (fun p => (f, p.1, p.2))
  | _ => none

def upd (σ : St) (f : FluentRef) (ws : List Val) (v : Val) : St :=
  fun g us => if g = f ∧ us = ws then some v else σ g us

/-- all writes of the instances, everything read in the pre-state interpretation `ι` -/
def applyInsts (ι : Interp) : List (VEnv × Effect) → St → St
  | [], acc => acc
  | (ρ, ef) :: r, acc =>
    applyInsts ι r (match write ι ρ ef acc with
      | some (f, ws, v) => upd acc f ws v
      | none => acc)

/-- one step of a plan: the parameter values of the action instance and its effect instances -/
structure Step where
  par : String → Option Val
  insts : List (VEnv × Effect)

def stepState (fn : FunRef → List Val → Option Val) (dom : Ty → List Val) (s : Step) (σ : St) : St :=
  applyInsts (interp fn dom s.par σ) s.insts σ

def run (fn : FunRef → List Val → Option Val) (dom : Ty → List Val) : List Step → St → St
  | [], σ => σ
  | s :: r, σ => run fn dom r (stepState fn dom s σ)

/-- the two states give the same value to every instance of every fluent outside `S` -/
def AgreeOff (S : List FluentRef) (σ₁ σ₂ : St) : Prop := ∀ f, f ∉ S → ∀ ws, σ₁ f ws = σ₂ f ws

end UPVerif.IFChanging
