import UPVerif.Spec.Successor
import UPVerif.Core.SimTyped
/-
What "a sequential plan is valid" and "the value of the metric" MEAN, written against the documented
one-step semantics `Spec.apply` of `Spec/Successor.lean` (C01) — no loop, no accumulator, no exception
handling.  Read it in five minutes:

* a state is only ever looked at through its readings `s.get W.P : GKey → Option Val`;
* `Exec W s π pres sf`: the plan `π` is EXECUTABLE from `s` and ends in `sf`; `pres` lists the state
  in which each step is taken.  One step `ai = (a, args)` from `s` to `s₁` is allowed iff `a` is an
  action of the problem and the documented successor `Spec.applyT W s a args` (C01's successor of the
  instance, actual parameters read by the types of the formal ones) exists and is what `s₁` reads;
* the plan is VALID iff it is executable from the initial state and every goal holds in the final
  state (`Spec.isGoal`; a goal that reads a fluent without value does not hold);
* metric values:
    - action costs: the sum over the steps of the action's cost expression (the one listed for the
      action, else the default) with the actual parameters OF THAT STEP substituted (objects,
      Booleans, integers, reals), evaluated in the state in which the step is taken (its PRE-state);
    - plan length: the number of steps;
    - minimize / maximize expression on final state: the value of the expression in the final state;
    - oversubscription: the sum of the weights of the listed goals that hold in the final state.
  A metric value is undefined (`none`) when an action without listed cost meets no default, or when
  an expression it evaluates reads a fluent without value / is not of the expected sort.
-/
namespace UPVerif.Spec
open UPVerif UPVerif.Sim

/-- a plan step: the action and its actual parameters, each written as the string that spells the constant
    (`Sim.argExpr`: an object name for a user-typed parameter, `true`/`false`, an integer, `n` or `n/d`
    for a Boolean / integer / real one) -/
abbrev PlanStep := Action × List String

/-- the documented result of applying action `a` with the actual parameters spelled by `args` in `s`: C01's
    documented successor (`Spec.successor`, `Spec/Successor.lean`) of the instance grounded with the actual
    parameters read by the types of the formal ones (`Sim.groundT`).  For an action whose parameters are all
    user-typed this IS C01's `Spec.apply` (`applyT_eq_apply`, `Lemmas/ArgLitLemmas.lean`). -/
def applyT (W : World) (s : SimState) (a : Action) (args : List String) : Option (GKey → Option Val) :=
  match groundT W a args with
  | .ok (some g) => successor W s g
  | _ => none

/-- one documented step: `s₁` reads as the documented successor of `s` under the instance `ai` -/
def StepOK (W : World) (s : SimState) (ai : PlanStep) (s₁ : SimState) : Prop :=
  ai.1 ∈ W.P.actions ∧ Spec.applyT W s ai.1 ai.2 = some (s₁.get W.P)

/-- no documented step exists -/
def Stuck (W : World) (s : SimState) (ai : PlanStep) : Prop :=
  ai.1 ∉ W.P.actions ∨ Spec.applyT W s ai.1 ai.2 = none

/-- `Exec W s π pres sf`: `π` is executable from `s`, step `j` is taken in `pres[j]`, the run ends in `sf` -/
inductive Exec (W : World) : SimState → List PlanStep → List SimState → SimState → Prop where
  | nil (s : SimState) : Exec W s [] [] s
  | cons {s s₁ sf : SimState} {ai : PlanStep} {π : List PlanStep} {pres : List SimState} :
      StepOK W s ai s₁ → Exec W s₁ π pres sf → Exec W s (ai :: π) (s :: pres) sf

/-- value of a numeric expression in a state; `none` = undefined -/
def numVal (W : World) (s : SimState) (e : Expr) : Option Rat :=
  match eval (ctx W s) [] e with
  | .ok (.n q) => some q
  | _ => none

/-- the cost expression of an action: the one listed for it, else the default -/
def costExpr (costs : List (String × Expr)) (dflt : Option Expr) (a : Action) : Option Expr :=
  match costs.lookup a.name with
  | some c => some c
  | none => dflt

/-- cost of one step taken in state `s` -/
def costOf (W : World) (costs : List (String × Expr)) (dflt : Option Expr) (ai : PlanStep) (s : SimState) : Option Rat :=
  match costExpr costs dflt ai.1 with
  | none => none
  | some c => if ai.1.params.length = ai.2.length then numVal W s (substE (paramSubstT W.P ai.1 ai.2) c) else none

/-- sum of the step costs over (step, pre-state) pairs -/
def costSum (W : World) (costs : List (String × Expr)) (dflt : Option Expr) : List PlanStep → List SimState → Option Rat
  | ai :: π, s :: pres =>
    match costOf W costs dflt ai s, costSum W costs dflt π pres with
    | some q, some r => some (q + r)
    | _, _ => none
  | _, _ => some 0

/-- does the Boolean expression have a defined truth value in `s`? -/
def boolVal (W : World) (s : SimState) (e : Expr) : Option Bool :=
  match evalBool (ctx W s) e with
  | .ok b => some b
  | .error _ => none

/-- oversubscription gain in `s`: sum of the weights of the goals that hold -/
def gain (W : World) (s : SimState) : List (Expr × Rat) → Option Rat
  | [] => some 0
  | (g, w) :: gs =>
    match boolVal W s g, gain W s gs with
    | some b, some r => some ((if b then w else 0) + r)
    | _, _ => none

/-- the value the metric defines for the run (`pres`, `sf`) of `π` -/
def metricValue (W : World) (m : Metric) (π : List PlanStep) (pres : List SimState) (sf : SimState) : Option Rat :=
  match m with
  | .minActionCosts costs dflt => costSum W costs dflt π pres
  | .minLength => some (π.length : Nat)
  | .minFinal e => numVal W sf e
  | .maxFinal e => numVal W sf e
  | .oversub goals => gain W sf goals

/-- what a VALID result must report: nothing without metric, else the defined value -/
def reported (W : World) (m : Option Metric) (π : List PlanStep) (pres : List SimState) (sf : SimState) : Option (Option Rat) :=
  match m with
  | none => some none
  | some mt => (metricValue W mt π pres sf).map some

/-- the plan is valid from `s₀`: executable and ending in a goal state -/
def ValidFrom (W : World) (s₀ : SimState) (π : List PlanStep) : Prop :=
  ∃ pres sf, Exec W s₀ π pres sf ∧ Spec.isGoal W sf = true

end UPVerif.Spec
