import UPVerif.Core.Eval
import UPVerif.Core.Sim
/-
The DOCUMENTED sequential semantics of one ground action, written declaratively and ORDER-FREE
(no fold, no accumulator).  Read it in five minutes:

* everything — preconditions, the arguments of effect targets, effect conditions, effect values — is
  evaluated in the PRE-state (`Core/Eval.lean`: strict; a fluent without value makes the evaluation
  undefined, hence "not satisfied");
* a forall effect stands for its instances over ALL objects of the variables' types
  (`Sim.expandEffect`); the FIRED effects are the instances whose condition is true;
* per ground fluent `k`, with `B k` / `V k` the Boolean / other values assigned to `k` by fired
  effects and `D k` the fired increases (decreases negated):
    - consistent iff all values in `V k` are equal, no assignment comes together with an
      increase/decrease, and an increased fluent has a numeric value in the pre-state;
    - new value: `true` iff some fired assignment gives `true` when `B k ≠ ∅` (a Boolean assigned
      both values ends true); the unique assigned value when `V k ≠ ∅`; `pre + Σ D k` when only
      increases/decreases fired; unchanged otherwise;
* the action is applicable iff it grounds (`Sim.ground`: the grounder's documented rejection of
  statically conflicting or contradictory instances), all preconditions are TRUE, no evaluation is
  undefined, every touched fluent is consistent, and every state invariant — the problem's `Always`
  bodies and the bounds of every ground instance of a bounded fluent (`Sim.invariants`) — is TRUE
  in the successor.
-/
namespace UPVerif.Spec
open UPVerif UPVerif.Sim

/-! ### fired effects (a list used as a multiset: nothing below depends on its order) -/

/-- all effect instances evaluated in the pre-state; `none` = some evaluation is undefined -/
def fired (c : EvalCtx) : List Effect → Option (List Fired)
  | [] => some []
  | e :: es =>
    match evalEff c e, fired c es with
    | .ok none, some F => some F
    | .ok (some f), some F => some (f :: F)
    | _, _ => none

def selB (k : GKey) : Fired → Option Bool
  | .setB k' b => if k' = k then some b else none
  | _ => none
def selV (k : GKey) : Fired → Option Val
  | .setV k' v => if k' = k then some v else none
  | _ => none
def selD (k : GKey) : Fired → Option Rat
  | .delta k' d => if k' = k then some d else none
  | _ => none

/-- Boolean values assigned to `k` -/
def asgB (F : List Fired) (k : GKey) : List Bool := F.filterMap (selB k)
/-- numeric / object values assigned to `k` -/
def asgV (F : List Fired) (k : GKey) : List Val := F.filterMap (selV k)
/-- signed increments of `k` -/
def deltas (F : List Fired) (k : GKey) : List Rat := F.filterMap (selD k)

def sumR : List Rat → Rat
  | [] => 0
  | d :: ds => d + sumR ds

/-- consistency of the fired effects on one ground fluent -/
def ConsK (cur : GKey → Option Val) (F : List Fired) (k : GKey) : Prop :=
  (∀ v ∈ asgV F k, ∀ w ∈ asgV F k, v = w) ∧
  ((asgB F k ≠ [] ∨ asgV F k ≠ []) → deltas F k = []) ∧
  (deltas F k ≠ [] → ∃ q, cur k = some (.n q))

instance (cur : GKey → Option Val) (F : List Fired) (k : GKey) : Decidable (ConsK cur F k) := by
  unfold ConsK
  have : Decidable (∃ q, cur k = some (Val.n q)) :=
    match h : cur k with
    | some (.n q) => isTrue ⟨q, rfl⟩
    | some (.b _) => isFalse (by rintro ⟨q, hq⟩; cases hq)
    | some (.o _) => isFalse (by rintro ⟨q, hq⟩; cases hq)
    | none => isFalse (by rintro ⟨q, hq⟩; cases hq)
  infer_instance

/-- the fired effects are consistent (only touched fluents can be inconsistent) -/
def Cons (cur : GKey → Option Val) (F : List Fired) : Prop := ∀ f ∈ F, ConsK cur F f.key

instance (cur : GKey → Option Val) (F : List Fired) : Decidable (Cons cur F) := by
  unfold Cons; infer_instance

/-- value given to `k` by the fired effects; `none` = untouched -/
def newVal (cur : GKey → Option Val) (F : List Fired) (k : GKey) : Option Val :=
  if asgB F k ≠ [] then some (.b ((asgB F k).any id))
  else match asgV F k with
    | v :: _ => some v
    | [] =>
      if deltas F k ≠ [] then
        match cur k with
        | some (.n q) => some (.n (q + sumR (deltas F k)))
        | _ => none
      else none

/-- the successor state as a map -/
def succGet (cur : GKey → Option Val) (F : List Fired) (k : GKey) : Option Val :=
  match newVal cur F k with
  | some v => some v
  | none => cur k

def isTrue : Except EvalErr Val → Bool
  | .ok (.b true) => true
  | _ => false
def isTrueB : Except EvalErr Bool → Bool
  | .ok true => true
  | _ => false

/-- the same evaluation context reading another state -/
def withGet (c : EvalCtx) (g : GKey → Option Val) : EvalCtx := { get := g, objs := c.objs, fn := c.fn }

/-- all preconditions evaluate to TRUE -/
def preOK (c : EvalCtx) (pre : List Expr) : Bool := pre.all (fun p => isTrue (eval c [] p))

/-- all state invariants (bounds included) evaluate to TRUE -/
def invOK (W : World) (c : EvalCtx) : Bool := (invariants W).all (fun si => isTrueB (evalBool c si))

/-- successor of state `s` under preconditions `pre` and (expanded, forall-free) effects `E` -/
def successorOf (W : World) (s : SimState) (pre : List Expr) (E : List Effect) : Option (GKey → Option Val) :=
  let c := ctx W s
  if preOK c pre then
    match fired c E with
    | none => none
    | some F =>
      if Cons c.get F ∧ invOK W (withGet c (succGet c.get F)) = true then some (succGet c.get F) else none
  else none

/-- the documented successor of a grounded action -/
def successor (W : World) (s : SimState) (g : GAction) : Option (GKey → Option Val) :=
  successorOf W s g.pre (expandAll W.P g)

/-- the documented result of applying action `a` with arguments `args` in `s` -/
def apply (W : World) (s : SimState) (a : Action) (args : List String) : Option (GKey → Option Val) :=
  match ground W a args with
  | .ok (some g) => successor W s g
  | _ => none

/-- a goal / condition holds iff it evaluates to TRUE; an undefined read is never satisfied -/
def holds (W : World) (s : SimState) (e : Expr) : Bool := isTrueB (evalBool (ctx W s) e)

def isGoal (W : World) (s : SimState) : Bool := W.P.goals.all (holds W s)

end UPVerif.Spec
