import UPVerif.Spec.Uses
import UPVerif.Core.KindOfExt
/-!
# `UsesH` / `UsesC` / `UsesS` / `UsesM` — a hierarchical / contingent / scheduling / multi-agent problem
# syntactically uses the feature `f`

Specification side of C10 for the problem subclasses.  As in `Spec/Uses.lean` everything is phrased
over *positions* and *sub-expressions* (`Sub`, `Mentions`), never over the traversal of the kind
computations: nothing here refers to `Prog`, `run` or an `upd*` / `m*` function of the model files.
From `Core/KindOfExt.lean` only the problem SYNTAX is used, together with the three *readings* of a
subclass problem as a `KProblem` (`HProblem.base`, `CProblem.toK`, `SProblem.toK`, `MProblem.toK`),
through which the rules of `Uses` apply to the part of the problem that has the
shape of a planning problem.  Each specification then ADDS one rule per feature of the statement and
position that only the subclass has.

Reading decisions (repeated in the evidence `assumptions`):
* hierarchical: method preconditions and ALL constraints of methods and of the initial task network
  (also those that mention time points) are condition positions; the arguments of subtasks are read
  positions; the types of task parameters, method parameters and task-network variables use typing;
* contingent: a sensing action is an instantaneous action; observed fluents and the expressions of
  `or` / `oneof` initial constraints are read positions;
* scheduling: an activity is read as a durative action (parameters, duration, timed conditions and
  effects), the timed conditions / effects of the base chronicle as timed goals / timed effects,
  constraints and their scope expressions as goals (condition positions); the variables of the base
  chronicle are parameters;
* multi-agent: the fluents of the environment and of all agents, the actions of all agents, the
  agents' public and private goals and the shared goals, read as one planning problem; undefined
  initial values are out of scope (initial values are kept per agent through `Dot` expressions).
Beyond the statement's list each specification also names the class-level features its `kind`
extension owns (`HIERARCHICAL`, `METHOD_PRECONDITIONS`, `TASK_NETWORK_CONSTRAINTS`,
`INITIAL_TASK_NETWORK_VARIABLES`; `CONTINGENT`; `SCHEDULING`, `OPTIONAL_ACTIVITIES`,
`SCOPED_CONSTRAINTS`; `ACTION_BASED_MULTI_AGENT`, `AGENT_SPECIFIC_PUBLIC/PRIVATE_GOAL`).
-/
namespace UPVerif.Spec
open UPVerif UPVerif.KindOf

/-- the expression contains no timing expression -/
def TimeFree (c : Expr) : Prop := ∀ r, ¬ Sub (.leaf (.timing r)) c

/-! ## hierarchical problems -/
section hier
variable (H : HProblem)

/-- constraints of task networks: of a method or of the initial task network, temporal or not -/
inductive HConstraint : Expr → Prop where
  | method {m : Method} {c : Expr} : m ∈ H.methods → c ∈ m.constraints → HConstraint c
  | initial {c : Expr} : c ∈ H.tn.constraints → HConstraint c

/-- condition positions that only a hierarchical problem has -/
inductive HCond : Expr → Prop where
  | methodPrecondition {m : Method} {c : Expr} : m ∈ H.methods → c ∈ m.pre → HCond c
  | constraint {c : Expr} : HConstraint H c → HCond c

/-- argument expressions of subtasks -/
inductive HSubtaskArg : Expr → Prop where
  | method {m : Method} {st : Subtask} {a : Expr} : m ∈ H.methods → st ∈ m.subtasks → a ∈ st.args → HSubtaskArg a
  | initial {st : Subtask} {a : Expr} : st ∈ H.tn.subtasks → a ∈ st.args → HSubtaskArg a

/-- types attached to the hierarchical elements -/
inductive HTypeUse : Ty → Prop where
  | taskParameter {t : String × List (String × Ty)} {n : String} {ty : Ty} : t ∈ H.tasks → (n, ty) ∈ t.2 → HTypeUse ty
  | methodParameter {m : Method} {n : String} {ty : Ty} : m ∈ H.methods → (n, ty) ∈ m.params → HTypeUse ty
  | networkVariable {n : String} {ty : Ty} : (n, ty) ∈ H.tn.vars → HTypeUse ty

/-- the fluent is read in a position that only a hierarchical problem has -/
inductive HRead : FluentRef → Prop where
  | condition {c : Expr} {f : FluentRef} : HCond H c → Mentions c f → HRead f
  | subtaskArgument {a : Expr} {f : FluentRef} : HSubtaskArg H a → Mentions a f → HRead f

inductive UsesH : Feature → Prop where
  /-- everything the `Problem` part uses -/
  | base {f : Feature} : Uses H.base f → UsesH f
  -- typing
  | flatTyping {n : String} : HTypeUse H (.user n) → UsesH "FLAT_TYPING"
  | hierarchicalTyping {n : String} : HTypeUse H (.user n) → H.base.types.father n ≠ none → UsesH "HIERARCHICAL_TYPING"
  -- fluent types: a numeric fluent read by the hierarchical part
  | intFluents {d : FluentDecl} {lb ub : Option Int} :
      d ∈ H.base.fluents → d.ref.ty = .int lb ub → HRead H d.ref → UsesH "INT_FLUENTS"
  | realFluents {d : FluentDecl} {lb ub : Option Rat} :
      d ∈ H.base.fluents → d.ref.ty = .real lb ub → HRead H d.ref → UsesH "REAL_FLUENTS"
  -- conditions
  | negativeConditions {c : Expr} {args : List Expr} : HCond H c → Sub (.app .not args) c → UsesH "NEGATIVE_CONDITIONS"
  | disjunctiveConditionsOr {c : Expr} {args : List Expr} : HCond H c → Sub (.app .or args) c → UsesH "DISJUNCTIVE_CONDITIONS"
  | disjunctiveConditionsImplies {c : Expr} {args : List Expr} :
      HCond H c → Sub (.app .implies args) c → UsesH "DISJUNCTIVE_CONDITIONS"
  | equalities {c : Expr} {args : List Expr} : HCond H c → Sub (.app .eq args) c → UsesH "EQUALITIES"
  | existentialConditions {c : Expr} {vs : List Var} {b : Expr} :
      HCond H c → Sub (.quant .ex vs b) c → UsesH "EXISTENTIAL_CONDITIONS"
  | universalConditions {c : Expr} {vs : List Var} {b : Expr} :
      HCond H c → Sub (.quant .all vs b) c → UsesH "UNIVERSAL_CONDITIONS"
  -- the features of the class
  | hierarchical : UsesH "HIERARCHICAL"
  | methodPreconditions {m : Method} {c : Expr} : m ∈ H.methods → c ∈ m.pre → UsesH "METHOD_PRECONDITIONS"
  | taskNetworkConstraints {c : Expr} : HConstraint H c → TimeFree c → UsesH "TASK_NETWORK_CONSTRAINTS"
  | initialTaskNetworkVariables : H.tn.vars ≠ [] → UsesH "INITIAL_TASK_NETWORK_VARIABLES"

end hier

/-! ## contingent problems -/
section cont
variable (C : CProblem)

/-- the fluent is read in a position that only a contingent problem has -/
inductive CRead : FluentRef → Prop where
  | observed {a : SAct} {o : Expr} {f : FluentRef} : a ∈ C.sensing → o ∈ a.observed → Mentions o f → CRead f
  | orConstraint {cl : List Expr} {c : Expr} {f : FluentRef} : cl ∈ C.orConstraints → c ∈ cl → Mentions c f → CRead f
  | oneofConstraint {cl : List Expr} {c : Expr} {f : FluentRef} :
      cl ∈ C.oneofConstraints → c ∈ cl → Mentions c f → CRead f

inductive UsesC : Feature → Prop where
  /-- everything the problem uses with its sensing actions read as instantaneous actions -/
  | base {f : Feature} : Uses C.toK f → UsesC f
  | intFluents {d : FluentDecl} {lb ub : Option Int} :
      d ∈ C.base.fluents → d.ref.ty = .int lb ub → CRead C d.ref → UsesC "INT_FLUENTS"
  | realFluents {d : FluentDecl} {lb ub : Option Rat} :
      d ∈ C.base.fluents → d.ref.ty = .real lb ub → CRead C d.ref → UsesC "REAL_FLUENTS"
  | contingent : UsesC "CONTINGENT"

end cont

/-! ## scheduling problems -/
section sched
variable (X : SProblem)

inductive UsesS : Feature → Prop where
  /-- everything the problem uses when read as a temporal planning problem (`SProblem.toK`) -/
  | base {f : Feature} : Uses X.toK f → UsesS f
  -- the variables of the base chronicle are parameters
  | variableFlatTyping {v n : String} : (v, Ty.user n) ∈ X.vars → UsesS "FLAT_TYPING"
  | variableHierarchicalTyping {v n : String} : (v, Ty.user n) ∈ X.vars → X.types.father n ≠ none → UsesS "HIERARCHICAL_TYPING"
  | boolVariable {v : String} : (v, Ty.bool) ∈ X.vars → UsesS "BOOL_ACTION_PARAMETERS"
  | realVariable {v : String} {lb ub : Option Rat} : (v, Ty.real lb ub) ∈ X.vars → UsesS "REAL_ACTION_PARAMETERS"
  | boundedIntVariable {v : String} {lb ub : Int} : (v, Ty.int (some lb) (some ub)) ∈ X.vars → UsesS "BOUNDED_INT_ACTION_PARAMETERS"
  | unboundedIntVariable {v : String} {lb ub : Option Int} :
      (v, Ty.int lb ub) ∈ X.vars → lb = none ∨ ub = none → UsesS "UNBOUNDED_INT_ACTION_PARAMETERS"
  -- the features of the class
  | scheduling : UsesS "SCHEDULING"
  | optionalActivities {a : Activity} : a ∈ X.activities → a.optional = true → UsesS "OPTIONAL_ACTIVITIES"
  | scopedConstraints {c : Expr × List Expr} : c ∈ X.constraints → c.2 ≠ [] → UsesS "SCOPED_CONSTRAINTS"
  | activityScopedConstraints {a : Activity} {c : Expr × List Expr} :
      a ∈ X.activities → c ∈ a.constraints → c.2 ≠ [] → UsesS "SCOPED_CONSTRAINTS"

end sched

/-! ## multi-agent problems -/
section ma

variable (M : MProblem)

inductive UsesM : Feature → Prop where
  | base {f : Feature} : Uses M.toK f → f ≠ "UNDEFINED_INITIAL_NUMERIC" → f ≠ "UNDEFINED_INITIAL_SYMBOLIC" → UsesM f
  -- the features of the class
  | multiAgent : UsesM "ACTION_BASED_MULTI_AGENT"
  | publicGoal {ag : MAgent} : ag ∈ M.agents → ag.publicGoals ≠ [] → UsesM "AGENT_SPECIFIC_PUBLIC_GOAL"
  | privateGoal {ag : MAgent} : ag ∈ M.agents → ag.privateGoals ≠ [] → UsesM "AGENT_SPECIFIC_PRIVATE_GOAL"

end ma

/-- the features the four specifications can demand beyond `statementFeatures` -/
def classFeatures : List Feature := [
  "HIERARCHICAL", "METHOD_PRECONDITIONS", "TASK_NETWORK_CONSTRAINTS", "INITIAL_TASK_NETWORK_VARIABLES", "CONTINGENT",
  "SCHEDULING", "OPTIONAL_ACTIVITIES", "SCOPED_CONSTRAINTS", "ACTION_BASED_MULTI_AGENT", "AGENT_SPECIFIC_PUBLIC_GOAL",
  "AGENT_SPECIFIC_PRIVATE_GOAL"]

end UPVerif.Spec
