/-!
# Spec: belief-space semantics of conformant planning over complete Boolean states (C30)

The reference semantics the KS0 theorems are stated against.  It is written from the documented
sequential semantics of unified-planning (`sequential_simulator.py`, Boolean fragment) and from the
text of property C30, *not* from the compiler:

* a state is a complete Boolean assignment `α → Bool` to the ground fluents (atoms);
* an action has precondition literals and conditional effect rules `condition literals → target literal`;
  all rule conditions are evaluated in the state *before* the action; a ground fluent that is both
  deleted and added by one application ends **true** (add-after-delete, the simulator's Boolean rule);
* a plan is *conformant* for a set `S` of possible initial states iff from **every** `s ∈ S` it is
  executable (every precondition holds when its action is applied) and ends in a state satisfying all
  goals.

Everything is executable (the driver runs it) and Mathlib-free.
-/
namespace UPVerif.Conformant

/-- a ground literal: `⟨f, true⟩` is `f`, `⟨f, false⟩` is `¬f` -/
structure Lit (α : Type) where
  atom : α
  pos : Bool
  deriving DecidableEq, Repr

/-- complementary literal -/
def Lit.neg {α : Type} (l : Lit α) : Lit α := ⟨l.atom, !l.pos⟩

/-- complete Boolean state -/
abbrev State (α : Type) := α → Bool

/-- a literal holds in a state -/
def holds {α : Type} (σ : State α) (l : Lit α) : Bool := σ l.atom == l.pos

/-- effect rule `cond → target` (conditional Boolean assignment `target.atom := target.pos`) -/
structure Rule (α : Type) where
  cond : List (Lit α)
  target : Lit α
  deriving DecidableEq, Repr

/-- ground action in normal form: conjunction of precondition literals, list of effect rules -/
structure Action (α : Type) where
  name : String
  pre : List (Lit α)
  rules : List (Rule α)
  deriving DecidableEq, Repr

/-- normalised (ground, literal-form) planning problem; the initial-state uncertainty is supplied apart -/
structure NProblem (α : Type) where
  atoms : List α
  actions : List (Action α)
  goals : List (Lit α)

variable {α : Type} [DecidableEq α]

/-- the rule's condition holds in `σ` -/
def fires (σ : State α) (r : Rule α) : Bool := r.cond.all (holds σ)

/-- some firing rule of `a` adds atom `x` -/
def adds (a : Action α) (σ : State α) (x : α) : Bool :=
  a.rules.any (fun r => fires σ r && decide (r.target = ⟨x, true⟩))

/-- some firing rule of `a` deletes atom `x` -/
def dels (a : Action α) (σ : State α) (x : α) : Bool :=
  a.rules.any (fun r => fires σ r && decide (r.target = ⟨x, false⟩))

/-- successor state: add wins over delete, untouched atoms persist -/
def step (a : Action α) (σ : State α) : State α :=
  fun x => if adds a σ x then true else if dels a σ x then false else σ x

def applicable (a : Action α) (σ : State α) : Bool := a.pre.all (holds σ)

/-- state after applying all effects of the plan in order (preconditions are checked by `executable`) -/
def run : List (Action α) → State α → State α
  | [], σ => σ
  | a :: π, σ => run π (step a σ)

/-- every action's preconditions hold in the state in which it is applied -/
def executable : List (Action α) → State α → Bool
  | [], _ => true
  | a :: π, σ => applicable a σ && executable π (step a σ)

/-- the plan is executable from `σ` and ends in a goal state -/
def validFrom (goals : List (Lit α)) (π : List (Action α)) (σ : State α) : Bool :=
  executable π σ && goals.all (holds (run π σ))

/-- **Conformant plan**: made of the problem's actions, valid from every possible initial state. -/
def Conformant (P : NProblem α) (S : List (State α)) (π : List (Action α)) : Prop :=
  (∀ a ∈ π, a ∈ P.actions) ∧ ∀ s ∈ S, validFrom P.goals π s = true

/-- **Classical validity** (one known initial state) — the same semantics with a single state. -/
def Valid (P : NProblem α) (init : State α) (π : List (Action α)) : Prop :=
  (∀ a ∈ π, a ∈ P.actions) ∧ validFrom P.goals π init = true

/-! ## disjunctive preconditions

Problems whose action preconditions are disjunctions of conjunctions of literals (what the
quantifier- and NNF/DNF-normalisation of a ground action's precondition yields).  An action is
applicable iff SOME disjunct holds; effects are as before. -/

structure DAction (α : Type) where
  name : String
  pre : List (List (Lit α))
  rules : List (Rule α)
  deriving DecidableEq, Repr

structure DProblem (α : Type) where
  atoms : List α
  actions : List (DAction α)
  goals : List (Lit α)

/-- the effects of a disjunctive action, as a precondition-free action -/
def DAction.effects (d : DAction α) : Action α := { name := d.name, pre := [], rules := d.rules }

def dapplicable (d : DAction α) (σ : State α) : Bool := d.pre.any (fun c => c.all (holds σ))

def dvalidFrom (goals : List (Lit α)) : List (DAction α) → State α → Bool
  | [], σ => goals.all (holds σ)
  | d :: π, σ => dapplicable d σ && dvalidFrom goals π (step d.effects σ)

/-- conformant plan of a problem with disjunctive preconditions -/
def DConformant (P : DProblem α) (S : List (State α)) (π : List (DAction α)) : Prop :=
  (∀ d ∈ π, d ∈ P.actions) ∧ ∀ s ∈ S, dvalidFrom P.goals π s = true

end UPVerif.Conformant
